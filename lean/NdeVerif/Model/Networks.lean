/-
  Model of `neurodiffeq.networks` (Mathlib-free, executable).

  * `resolveHidden`, `buildLayers`, `fcnnLayers` mirror `FCNN.__init__` block by block (the two FORWARD
    COMPATIBILITY blocks, the `(32, 32)` default, the loop over `units = (n_input_units,) + hidden_units` with the
    `layers` accumulator, the final linear layer).  Warnings are no-ops.  `fcnnInit` is the same constructor over
    Python ints (negative `n_hidden_layers` gives an empty `range`; a negative layer size makes `torch.nn.Linear`
    raise, modelled as `none`).
  * `resnetLayers` / `resnetInit` mirror `Resnet.__init__` (note the *default* `hidden_units=(32, 32)` of the real
    signature: it is a Lean default argument here, too).
  * forward semantics over any carrier `α` (Float in the driver, ℝ in the proofs) given explicit weights:
    `fcnnForward rows = rows.map (seqRow mods)`, `resnetForward`, `monomialRow`.
  * activations `SinActv`, `Swish`, `APTx` (and `torch.nn.Tanh`, the default) as `Act.eval`, written with the same
    operations in the same order as the `forward` methods; `paramNames` is the table of registered parameters.
-/
namespace NdeVerif.Networks

/-! ### architecture -/

/-- one entry of the `torch.nn.Sequential`: `Linear(in_features, out_features, bias)` or the activation `actv()` -/
inductive Layer where
  | linear (inF outF : Nat) (bias : Bool)
  | actv
  deriving Repr, DecidableEq

/-- the three "which hidden sizes" blocks of `FCNN.__init__`, in order -/
def resolveHidden (nHU nHL : Option Nat) (hidden : Option (List Nat)) : List Nat :=
  -- `if n_hidden_units is None and n_hidden_layers is not None: n_hidden_units = 32`
  -- `elif n_hidden_units is not None and n_hidden_layers is None: n_hidden_layers = 1`
  let (nHU, nHL) : Option Nat × Option Nat :=
    match nHU, nHL with
    | none, some l => (some 32, some l)
    | some h, none => (some h, some 1)
    | a, b => (a, b)
  -- `if n_hidden_units is not None or n_hidden_layers is not None:`
  let hidden : Option (List Nat) :=
    if nHU.isSome || nHL.isSome then
      match hidden with
      -- `hidden_units = tuple(n_hidden_units for _ in range(n_hidden_layers + 1))` (+ FutureWarning)
      | none => some (List.replicate (nHL.getD 0 + 1) (nHU.getD 0))
      -- "Ignoring `n_hidden_units` and `n_hidden_layers` in favor of `hidden_units`" (FutureWarning only)
      | some hs => some hs
    else hidden
  -- `if hidden_units is None: hidden_units = (32, 32)`
  hidden.getD [32, 32]

/-- the layer loop: `units = (n_input_units,) + hidden_units`,
    `for i in range(len(units) - 1): layers.append(Linear(units[i], units[i+1])); layers.append(actv())`,
    then `layers.append(Linear(units[-1], n_output_units))` -/
def buildLayers (nIn nOut : Nat) (hidden : List Nat) : List Layer :=
  let units := nIn :: hidden
  (List.range (units.length - 1)).flatMap
      (fun i => [Layer.linear (units.getD i 0) (units.getD (i + 1) 0) true, Layer.actv])
    ++ [Layer.linear (units.getLastD 0) nOut true]

/-- `FCNN(n_input_units, n_output_units, n_hidden_units, n_hidden_layers, actv, hidden_units).NN` as a layer list -/
def fcnnLayers (nIn nOut : Nat) (nHU nHL : Option Nat) (hidden : Option (List Nat)) : List Layer :=
  buildLayers nIn nOut (resolveHidden nHU nHL hidden)

/-- `Resnet.__init__`: `self.residual = FCNN(.., hidden_units=hidden_units)`, `self.skip_connection =
    Linear(n_input_units, n_output_units, bias=False)`.  Returned as (skip, residual). -/
def resnetLayers (nIn nOut : Nat) (nHU nHL : Option Nat) (hidden : Option (List Nat) := some [32, 32]) :
    Layer × List Layer :=
  (Layer.linear nIn nOut false, fcnnLayers nIn nOut nHU nHL hidden)

/-! #### the same constructor over Python ints (rejection paths) -/

def resolveHiddenInt (nHU nHL : Option Int) (hidden : Option (List Int)) : List Int :=
  let (nHU, nHL) : Option Int × Option Int :=
    match nHU, nHL with
    | none, some l => (some 32, some l)
    | some h, none => (some h, some 1)
    | a, b => (a, b)
  let hidden : Option (List Int) :=
    if nHU.isSome || nHL.isSome then
      match hidden with
      | none => some (List.replicate (nHL.getD 0 + 1).toNat (nHU.getD 0))   -- `range(k)` is empty for k ≤ 0
      | some hs => some hs
    else hidden
  hidden.getD [32, 32]

/-- `none` = the constructor raises (`torch.nn.Linear` refuses a negative size: RuntimeError) -/
def fcnnInit (nIn nOut : Int) (nHU nHL : Option Int) (hidden : Option (List Int)) : Option (List Layer) :=
  let hs := resolveHiddenInt nHU nHL hidden
  if (nIn :: nOut :: hs).all (0 ≤ ·) then some (buildLayers nIn.toNat nOut.toNat (hs.map Int.toNat)) else none

def resnetInit (nIn nOut : Int) (nHU nHL : Option Int) (hidden : Option (List Int) := some [32, 32]) :
    Option (Layer × List Layer) :=
  -- the residual FCNN is built first; the skip connection needs only nIn, nOut ≥ 0, which fcnnInit checked
  (fcnnInit nIn nOut nHU nHL hidden).map fun ls => (Layer.linear nIn.toNat nOut.toNat false, ls)

/-! ### activations -/

/-- the elementwise primitives of torch the activations are written with -/
structure Fns (α : Type) where
  exp : α → α
  tanh : α → α
  sin : α → α

/-- activation modules: `torch.nn.Tanh` (default of FCNN/Resnet), `SinActv`, `Swish(beta)`, `APTx(alpha, beta, gamma)` -/
inductive Act (α : Type) where
  | tanh
  | sin
  | swish (beta : α)
  | aptx (alpha beta gamma : α)
  deriving Repr

section
variable {α : Type} [Add α] [Mul α] [Neg α] [Div α] [OfNat α 0] [OfNat α 1]

/-- `torch.sigmoid` -/
def sigmoid (F : Fns α) (x : α) : α := 1 / (1 + F.exp (-x))

/-- the `forward` methods, operation by operation:
    `SinActv`: `torch.sin(input_)`; `Swish`: `x * torch.sigmoid(self.beta * x)`;
    `APTx`: `(self.alpha + torch.nn.functional.tanh(self.beta*x))*self.gamma*x` -/
def Act.eval (F : Fns α) : Act α → α → α
  | .tanh, x => F.tanh x
  | .sin, x => F.sin x
  | .swish b, x => x * sigmoid F (b * x)
  | .aptx a b c, x => (a + F.tanh (b * x)) * c * x

/-! ### forward passes with explicit weights -/

/-- `torch.nn.Linear`: `weight` has one row per output feature; `bias = none` for `bias=False` -/
structure Lin (α : Type) where
  W : List (List α)
  b : Option (List α)

inductive SeqMod (α : Type) where
  | lin (l : Lin α)
  | act (a : Act α)

def dot (w x : List α) : α := (List.zipWith (· * ·) w x).foldl (· + ·) 0

/-- `x @ W.T (+ b)` for one row `x` -/
def Lin.apply (l : Lin α) (x : List α) : List α :=
  match l.b with
  | none => l.W.map (dot · x)
  | some b => List.zipWith (· + ·) (l.W.map (dot · x)) b

def SeqMod.apply (F : Fns α) : SeqMod α → List α → List α
  | .lin l, x => l.apply x
  | .act a, x => x.map (a.eval F)

/-- `torch.nn.Sequential.forward` on one row -/
def seqRow (F : Fns α) (ms : List (SeqMod α)) (x : List α) : List α := ms.foldl (fun x m => m.apply F x) x

/-- `FCNN.forward` on a batch (list of rows) -/
def fcnnForward (F : Fns α) (ms : List (SeqMod α)) (rows : List (List α)) : List (List α) := rows.map (seqRow F ms)

/-- `Resnet.forward` on one row: `self.skip_connection(t) + self.residual(t)` -/
def resnetRow (F : Fns α) (skip : Lin α) (ms : List (SeqMod α)) (x : List α) : List α :=
  List.zipWith (· + ·) (skip.apply x) (seqRow F ms x)

def resnetForward (F : Fns α) (skip : Lin α) (ms : List (SeqMod α)) (rows : List (List α)) : List (List α) :=
  rows.map (resnetRow F skip ms)

/-! ### MonomialNN -/

/-- `x ** d` for a natural exponent by repeated multiplication -/
def npow (x : α) : Nat → α
  | 0 => 1
  | n + 1 => npow x n * x

/-- `torch.cat([x ** d for d in self.degrees], dim=1)` on one row: all input columns to the first degree, then all
    input columns to the second degree, … -/
def monomialRow (degrees : List Nat) (x : List α) : List α := degrees.flatMap (fun d => x.map (npow · d))

def monomialForward (degrees : List Nat) (rows : List (List α)) : List (List α) := rows.map (monomialRow degrees)

end

/-- `MonomialNN.__init__`: an int `n` means degrees `1..n`; an empty degree tuple raises ValueError (`none`);
    the two warnings (degree 0, duplicates) are no-ops -/
def monomialInit : Int ⊕ List Nat → Option (List Nat)
  | .inl n => let ds := List.range' 1 n.toNat; if ds.length = 0 then none else some ds
  | .inr ds => if ds.length = 0 then none else some ds

/-! ### trainable parameters -/

inductive ActKind where
  | tanh | sin | swish | aptx
  deriving Repr, DecidableEq

/-- names registered as `nn.Parameter` (all with `requires_grad=True`) by the constructor, in registration order -/
def paramNames : ActKind → (trainable : Bool) → List String
  | .swish, true => ["beta"]
  | .aptx, true => ["alpha", "beta", "gamma"]
  | _, _ => []

/-- does the activation have scalar hyper-parameters at all -/
def hasHyper : ActKind → Bool
  | .swish | .aptx => true
  | _ => false

end NdeVerif.Networks
