/-
  The law set `Arith.Exact` is consistent: the real numbers (with every value "finite") satisfy it, so every generated
  exactness theorem specialises to the reals - and the side conditions of the generated theorems are satisfiable.
  (That IEEE-754 arithmetic satisfies the laws is the documented, trusted statement about the floating-point unit;
  `harness/fexlaws.py` samples each law on torch tensors in both precisions on every run - a test, not a proof.)
-/
import NdeVerif.Calc.FExSound
import NdeVerif.Calc.Real

namespace NdeVerif
open FEx

/-- the arithmetic of the reals; opaque symbols are interpreted by an arbitrary family of functions of their argument values -/
noncomputable def realArith (F : Nat → List ℝ → ℝ) : Arith ℝ where
  zero := 0
  one := 1
  lit := fun p q => (p : ℝ) / (q : ℝ)
  pi := Real.pi
  add := (· + ·)
  sub := (· - ·)
  mul := (· * ·)
  div := (· / ·)
  neg := fun x => -x
  pow := fun x n => x ^ n
  un := UF.ev
  app := F

theorem realArith_exact (F : Nat → List ℝ → ℝ) : (realArith F).Exact (fun _ => True) where
  add_zero := by intro x; simp [realArith]
  zero_add := by intro x; simp [realArith]
  neg_add_self := by intro x _; simp [realArith]
  add_neg_self := by intro x _; simp [realArith]
  sub_zero := by intro x; simp [realArith]
  sub_self := by intro x _; simp [realArith]
  mul_zero := by intro x _; simp [realArith]
  zero_mul := by intro x _; simp [realArith]
  mul_one := by intro x; simp [realArith]
  one_mul := by intro x; simp [realArith]
  div_one := by intro x; simp [realArith]
  zero_div := by intro x _ _; simp [realArith]
  div_self := by intro x _ hx; simp only [realArith] at hx ⊢; exact div_self hx
  fin_zero := trivial
  fin_one := trivial
  fin_lit := by intro _ _; trivial
  neg_zero := by simp [realArith]
  pow_zero := by intro x; simp [realArith]
  pow_one := by intro x; simp [realArith]
  zero_pow := by intro n; simp [realArith]
  one_pow := by intro n; simp [realArith]
  exp_zero := by simp [realArith, UF.ev]
  cos_zero := by simp [realArith, UF.ev]
  sin_zero := by simp [realArith, UF.ev]
  tanh_zero := by simp [realArith, UF.ev]
  sqrt_zero := by simp [realArith, UF.ev]
  abs_zero := by simp [realArith, UF.ev]
  sqrt_one := by simp [realArith, UF.ev]
  abs_one := by simp [realArith, UF.ev]
  log_one := by simp [realArith, UF.ev]

/-- non-vacuity of the side conditions: over the reals "finite" is always true, so only the non-zero conditions remain -/
example (F : Nat → List ℝ → ℝ) (env : Nat → ℝ) (h : env 2 - env 1 ≠ 0) :
    AllHold (realArith F) (fun _ => True) env
      [.fin (.sub (.var 2) (.var 1)), .nz (.sub (.var 2) (.var 1)), .fin (.var 3), .fin (.app1 0 (.var 2))] := by
  intro c hc
  simp only [List.mem_cons, List.mem_nil_iff, or_false] at hc
  rcases hc with rfl | rfl | rfl | rfl
  · trivial
  · simpa [Cond.Holds, FEx.eval, realArith] using h
  · trivial
  · trivial

end NdeVerif
