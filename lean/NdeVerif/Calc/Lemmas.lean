/-
  Library lemmas about `Ex` used by the generated proofs: environments, substitution,
  independence, iterated derivatives, multi-index bookkeeping, a concrete smooth interpretation.
-/
import NdeVerif.Calc.Real

namespace NdeVerif
open Ex

/-- environment from a list of reals (variables beyond the list read 0) -/
def env (l : List ℝ) : Nat → ℝ := fun i => l.getD i 0

@[simp] theorem env_zero (a : ℝ) (l) : env (a :: l) 0 = a := rfl
@[simp] theorem env_succ (a : ℝ) (l) (i : Nat) : env (a :: l) (i+1) = env l i := rfl
@[simp] theorem env_nil (i : Nat) : env [] i = 0 := by simp [env]

theorem update_env (l : List ℝ) (x : Nat) (hx : x < l.length) (v : ℝ) :
    Function.update (env l) x v = env (l.set x v) := by
  funext i
  by_cases h : i = x
  · subst h; simp [env, List.getD_eq_getElem?_getD, hx]
  · simp [Function.update, h, env, List.getD_eq_getElem?_getD, Ne.symm h]

/-- `D_sound` phrased for list environments: derivative in the `x`-th entry -/
theorem D_sound_env (I : Interp) (hI : Smooth I) (x : Nat) (e : Ex) (l : List ℝ)
    (hx : x < l.length) (h : e.ok I (env l)) :
    HasDerivAt (fun v => e.eval I (env (l.set x v))) ((e.D x).eval I (env l)) (l.getD x 0) := by
  have := D_sound I hI x e (env l) h
  simp only [update_env l x hx] at this
  exact this

theorem eval_subst (I : Interp) (ρ : Nat → ℝ) (v : Nat) (e : Ex) (b : Ex) :
    (subst v e b).eval I ρ = b.eval I (Function.update ρ v (e.eval I ρ)) := by
  induction b with
  | var i =>
    by_cases h : i = v
    · subst h; simp [subst, Ex.eval]
    · simp [subst, Ex.eval, h]
  | app f n mi args ih => simp only [subst, Ex.eval]; congr 1; funext i; exact ih i
  | _ => simp_all [subst, Ex.eval]

theorem eval_congr_of_not_hasVar (I : Interp) (x : Nat) (e : Ex) (h : e.hasVar x = false)
    (ρ : Nat → ℝ) (v : ℝ) : e.eval I (Function.update ρ x v) = e.eval I ρ := by
  induction e with
  | var i =>
    have : i ≠ x := by simpa [hasVar] using h
    simp [Ex.eval, Function.update, this]
  | app f n mi args ih =>
    simp only [Ex.eval]; congr 1; funext i; apply ih
    simp only [hasVar, List.any_eq_false] at h
    simpa using h i (List.mem_finRange i)
  | _ => simp_all [hasVar, Ex.eval]

/-- an expression that does not mention `x` has symbolic derivative identically zero -/
theorem D_eval_eq_zero_of_not_hasVar (I : Interp) (x : Nat) (e : Ex) (h : e.hasVar x = false)
    (ρ : Nat → ℝ) : (e.D x).eval I ρ = 0 := by
  induction e with
  | var i =>
    have : i ≠ x := by simpa [hasVar] using h
    simp [Ex.D, Ex.eval, this]
  | un f a ih =>
    have := ih (by simpa [hasVar] using h)
    cases f <;> simp [Ex.D, Ex.eval, this]
  | app f n mi args ih =>
    simp only [Ex.D, eval_sumFin, Ex.eval]
    apply Finset.sum_eq_zero
    intro i _
    simp only [hasVar, List.any_eq_false] at h
    rw [ih i (by simpa using h i (List.mem_finRange i))]; simp
  | _ => simp_all [hasVar, Ex.D, Ex.eval]

/-- expressions built without partial primitives (no inverse, log, sqrt, abs, atan2):
`D` is the derivative everywhere -/
def Ex.total : Ex → Prop
  | .add a b | .mul a b => a.total ∧ b.total
  | .neg a | .pow a _ => a.total
  | .inv _ => False
  | .un .log _ | .un .sqrt _ | .un .abs _ => False
  | .un _ a => a.total
  | .atan2 _ _ => False
  | .app _ n _ args => ∀ i : Fin n, (args i).total
  | _ => True

theorem total_sumFin : ∀ n (f : Fin n → Ex), (∀ i, (f i).total) → (sumFin n f).total
  | 0, _, _ => by simp [sumFin, Ex.total]
  | n+1, f, h => by
    simp only [sumFin, Ex.total]
    exact ⟨h 0, total_sumFin n _ (fun i => h i.succ)⟩

theorem ok_of_total (I : Interp) (ρ : Nat → ℝ) (e : Ex) (h : e.total) : e.ok I ρ := by
  induction e with
  | un f a ih => cases f <;> simp_all [Ex.total, Ex.ok]
  | app f n mi args ih => intro i; exact ih i (h i)
  | _ => simp_all [Ex.total, Ex.ok]

theorem total_D (x : Nat) (e : Ex) (h : e.total) : (e.D x).total := by
  induction e with
  | var i => by_cases hi : i = x <;> simp [Ex.D, hi, Ex.total]
  | un f a ih => cases f <;> simp_all [Ex.total, Ex.D]
  | app f n mi args ih =>
    simp only [Ex.D]
    apply total_sumFin
    intro i
    exact ⟨fun j => h j, ih i (h i)⟩
  | _ => simp_all [Ex.total, Ex.D]

theorem total_iterD (x : Nat) (k : Nat) (e : Ex) (h : e.total) : (iterD x k e).total := by
  induction k with
  | zero => simpa [iterD]
  | succ k ih => simpa [iterD] using total_D x _ ih

/-- for total expressions the `k`-fold symbolic derivative is the `k`-th iterated derivative of the
section `v ↦ e(…, x := v, …)`, at every point -/
theorem iterD_sound (I : Interp) (hI : Smooth I) (x : Nat) (e : Ex) (h : e.total) (ρ : Nat → ℝ) :
    ∀ k, deriv^[k] (fun v => e.eval I (Function.update ρ x v)) =
      fun v => (iterD x k e).eval I (Function.update ρ x v) := by
  intro k
  induction k with
  | zero => rfl
  | succ k ih =>
    rw [Function.iterate_succ_apply', ih]
    funext v
    have := D_sound I hI x (iterD x k e) (Function.update ρ x v)
      (ok_of_total I _ _ (total_iterD x k e h))
    simp only [Function.update_idem, Function.update_self] at this
    exact this.deriv

/-! multi-index bookkeeping for the arities that occur (1..4) -/

@[simp] theorem inc1_0 (a : Nat) : inc ![a] 0 = ![a+1] := by
  funext i; fin_cases i; simp [inc]
@[simp] theorem inc2_0 (a b : Nat) : inc ![a,b] 0 = ![a+1,b] := by
  funext i; fin_cases i <;> simp [inc]
@[simp] theorem inc2_1 (a b : Nat) : inc ![a,b] 1 = ![a,b+1] := by
  funext i; fin_cases i <;> simp [inc]
@[simp] theorem inc3_0 (a b c : Nat) : inc ![a,b,c] 0 = ![a+1,b,c] := by
  funext i; fin_cases i <;> simp [inc]
@[simp] theorem inc3_1 (a b c : Nat) : inc ![a,b,c] 1 = ![a,b+1,c] := by
  funext i; fin_cases i <;> simp [inc]
@[simp] theorem inc3_2 (a b c : Nat) : inc ![a,b,c] 2 = ![a,b,c+1] := by
  funext i; fin_cases i <;> simp [inc]
@[simp] theorem inc4_0 (a b c d : Nat) : inc ![a,b,c,d] 0 = ![a+1,b,c,d] := by
  funext i; fin_cases i <;> simp [inc]
@[simp] theorem inc4_1 (a b c d : Nat) : inc ![a,b,c,d] 1 = ![a,b+1,c,d] := by
  funext i; fin_cases i <;> simp [inc]
@[simp] theorem inc4_2 (a b c d : Nat) : inc ![a,b,c,d] 2 = ![a,b,c+1,d] := by
  funext i; fin_cases i <;> simp [inc]
@[simp] theorem inc4_3 (a b c d : Nat) : inc ![a,b,c,d] 3 = ![a,b,c,d+1] := by
  funext i; fin_cases i <;> simp [inc]

@[simp] theorem inc5_0 (a b c d e : Nat) : inc ![a,b,c,d,e] 0 = ![a+1,b,c,d,e] := by
  funext i; fin_cases i <;> simp [inc]
@[simp] theorem inc5_1 (a b c d e : Nat) : inc ![a,b,c,d,e] 1 = ![a,b+1,c,d,e] := by
  funext i; fin_cases i <;> simp [inc]
@[simp] theorem inc5_2 (a b c d e : Nat) : inc ![a,b,c,d,e] 2 = ![a,b,c+1,d,e] := by
  funext i; fin_cases i <;> simp [inc]
@[simp] theorem inc5_3 (a b c d e : Nat) : inc ![a,b,c,d,e] 3 = ![a,b,c,d+1,e] := by
  funext i; fin_cases i <;> simp [inc]
@[simp] theorem inc5_4 (a b c d e : Nat) : inc ![a,b,c,d,e] 4 = ![a,b,c,d,e+1] := by
  funext i; fin_cases i <;> simp [inc]

theorem eval_vec5 (I : Interp) (ρ : Nat → ℝ) (a b c d e : Ex) :
    (fun i => Ex.eval I ρ (![a,b,c,d,e] i)) =
      ![a.eval I ρ, b.eval I ρ, c.eval I ρ, d.eval I ρ, e.eval I ρ] := by
  funext i; fin_cases i <;> rfl
theorem subst_vec5 (v : Nat) (s a b c d e : Ex) :
    (fun i => Ex.subst v s (![a,b,c,d,e] i)) =
      ![Ex.subst v s a, Ex.subst v s b, Ex.subst v s c, Ex.subst v s d, Ex.subst v s e] := by
  funext i; fin_cases i <;> rfl

theorem eval_vec1 (I : Interp) (ρ : Nat → ℝ) (a : Ex) :
    (fun i => Ex.eval I ρ (![a] i)) = ![a.eval I ρ] := by
  funext i; fin_cases i; rfl
theorem eval_vec2 (I : Interp) (ρ : Nat → ℝ) (a b : Ex) :
    (fun i => Ex.eval I ρ (![a,b] i)) = ![a.eval I ρ, b.eval I ρ] := by
  funext i; fin_cases i <;> rfl
theorem eval_vec3 (I : Interp) (ρ : Nat → ℝ) (a b c : Ex) :
    (fun i => Ex.eval I ρ (![a,b,c] i)) = ![a.eval I ρ, b.eval I ρ, c.eval I ρ] := by
  funext i; fin_cases i <;> rfl
theorem eval_vec4 (I : Interp) (ρ : Nat → ℝ) (a b c d : Ex) :
    (fun i => Ex.eval I ρ (![a,b,c,d] i)) = ![a.eval I ρ, b.eval I ρ, c.eval I ρ, d.eval I ρ] := by
  funext i; fin_cases i <;> rfl

theorem subst_vec1 (v : Nat) (e a : Ex) :
    (fun i => Ex.subst v e (![a] i)) = ![Ex.subst v e a] := by
  funext i; fin_cases i; rfl
theorem subst_vec2 (v : Nat) (e a b : Ex) :
    (fun i => Ex.subst v e (![a,b] i)) = ![Ex.subst v e a, Ex.subst v e b] := by
  funext i; fin_cases i <;> rfl
theorem subst_vec3 (v : Nat) (e a b c : Ex) :
    (fun i => Ex.subst v e (![a,b,c] i)) = ![Ex.subst v e a, Ex.subst v e b, Ex.subst v e c] := by
  funext i; fin_cases i <;> rfl
theorem subst_vec4 (v : Nat) (e a b c d : Ex) :
    (fun i => Ex.subst v e (![a,b,c,d] i)) =
      ![Ex.subst v e a, Ex.subst v e b, Ex.subst v e c, Ex.subst v e d] := by
  funext i; fin_cases i <;> rfl

/-! a concrete smooth interpretation: the hypotheses of the property theorems are satisfiable -/

noncomputable def expInterp : Interp := ⟨fun _ n _ p => Real.exp (∑ i : Fin n, p i)⟩

theorem expInterp_smooth : Smooth expInterp := by
  intro f n mi p
  have hlin : HasFDerivAt (fun q : Fin n → ℝ => ∑ i, q i)
      (∑ i, ContinuousLinearMap.proj (R := ℝ) (φ := fun _ : Fin n => ℝ) i) p := by
    have := (∑ i, ContinuousLinearMap.proj (R := ℝ) (φ := fun _ : Fin n => ℝ) i).hasFDerivAt (x := p)
    convert this using 1
    funext q; simp
  have := hlin.exp
  simp only [expInterp]
  rw [← Finset.smul_sum]
  exact this

end NdeVerif
