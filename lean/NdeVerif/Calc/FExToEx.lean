/-
  The operation-order model and the real-valued model are the same function over ℝ.

  `FEx.toEx σ` forgets the order of operations exactly the way the first translator does (`a - b ↦ a + (-b)`, `a / b ↦ a * b⁻¹`,
  literals as in `ex.frac_tree`); `σ` renames the opaque symbols (the two translations number them independently).
  `eval_toEx`: evaluating the image in the real semantics of `Ex` is evaluating the original in the arithmetic of the reals.
  The generated modules `Gen/<id>T` prove `toEx σ <scenario>_f = <scenario>` by `rfl` for every scenario both translators cover,
  which ties the two translations of the same trace to each other inside the kernel; with `eval_toEx` every `*_exact` theorem
  specialises to the statement the certificate engine proves about the `Ex` definition.
-/
import NdeVerif.Calc.FExReal
import NdeVerif.Calc.Lemmas

namespace NdeVerif
open FEx

def FEx.litEx (p : Int) (q : Nat) : Ex :=
  if p < 0 then .neg (if q = 1 then .nat (-p).toNat else .rat (-p) q)
  else if q = 1 then .nat p.toNat else .rat p q

def FEx.toEx (σ : Nat → Nat) : FEx → Ex
  | .var i => .var i
  | .zero => .nat 0
  | .one => .nat 1
  | .lit p q => FEx.litEx p q
  | .pi => .pi
  | .add a b => .add (toEx σ a) (toEx σ b)
  | .sub a b => .add (toEx σ a) (.neg (toEx σ b))
  | .mul a b => .mul (toEx σ a) (toEx σ b)
  | .div a b => .mul (toEx σ a) (.inv (toEx σ b))
  | .neg a => .neg (toEx σ a)
  | .pow a n => .pow (toEx σ a) n
  | .un f a => .un f (toEx σ a)
  | .app1 f a => .app (σ f) 1 ![0] ![toEx σ a]
  | .app2 f a b => .app (σ f) 2 ![0, 0] ![toEx σ a, toEx σ b]
  | .app3 f a b c => .app (σ f) 3 ![0, 0, 0] ![toEx σ a, toEx σ b, toEx σ c]
  | .app4 f a b c d => .app (σ f) 4 ![0, 0, 0, 0] ![toEx σ a, toEx σ b, toEx σ c, toEx σ d]
  | .app5 f a b c d e => .app (σ f) 5 ![0, 0, 0, 0, 0] ![toEx σ a, toEx σ b, toEx σ c, toEx σ d, toEx σ e]

/-- the arithmetic of the reals in which the opaque symbols are those of an `Ex` interpretation (renamed by `σ`) -/
noncomputable def realArithOf (I : Interp) (σ : Nat → Nat) : Arith ℝ :=
  realArith (fun f xs =>
    match xs with
    | [a] => I.fn (σ f) 1 ![0] ![a]
    | [a, b] => I.fn (σ f) 2 ![0, 0] ![a, b]
    | [a, b, c] => I.fn (σ f) 3 ![0, 0, 0] ![a, b, c]
    | [a, b, c, d] => I.fn (σ f) 4 ![0, 0, 0, 0] ![a, b, c, d]
    | [a, b, c, d, e] => I.fn (σ f) 5 ![0, 0, 0, 0, 0] ![a, b, c, d, e]
    | _ => 0)

theorem realArithOf_exact (I : Interp) (σ : Nat → Nat) : (realArithOf I σ).Exact (fun _ => True) :=
  realArith_exact _

theorem eval_litEx (I : Interp) (ρ : Nat → ℝ) (p : Int) (q : Nat) :
    Ex.eval I ρ (FEx.litEx p q) = (p : ℝ) / (q : ℝ) := by
  unfold FEx.litEx
  by_cases hp : p < 0
  · have hnn : (0 : Int) ≤ -p := by omega
    have hcast : (((-p).toNat : ℕ) : ℝ) = ((-p : Int) : ℝ) := by
      have : (((-p).toNat : ℕ) : Int) = -p := Int.toNat_of_nonneg hnn
      exact_mod_cast this
    by_cases hq : q = 1
    · simp only [hp, hq, if_true, Ex.eval, hcast]; push_cast; ring
    · simp only [hp, hq, if_true, if_false, Ex.eval]; push_cast; ring
  · have hnn : (0 : Int) ≤ p := by omega
    have hcast : ((p.toNat : ℕ) : ℝ) = (p : ℝ) := by
      have : ((p.toNat : ℕ) : Int) = p := Int.toNat_of_nonneg hnn
      exact_mod_cast this
    by_cases hq : q = 1
    · simp only [hp, hq, if_true, if_false, Ex.eval, hcast]; push_cast; ring
    · simp only [hp, hq, if_false, Ex.eval]

/-- the real semantics of the forgotten form is the evaluation of the operation-order form in the arithmetic of the reals -/
theorem eval_toEx (I : Interp) (σ : Nat → Nat) (ρ : Nat → ℝ) (e : FEx) :
    Ex.eval I ρ (FEx.toEx σ e) = FEx.eval (realArithOf I σ) ρ e := by
  induction e with
  | var i => rfl
  | zero => simp [FEx.toEx, Ex.eval, FEx.eval, realArithOf, realArith]
  | one => simp [FEx.toEx, Ex.eval, FEx.eval, realArithOf, realArith]
  | lit p q => simp only [FEx.toEx, eval_litEx, FEx.eval, realArithOf, realArith]
  | pi => rfl
  | add a b iha ihb => simp only [FEx.toEx, Ex.eval, FEx.eval, iha, ihb]; rfl
  | sub a b iha ihb => simp only [FEx.toEx, Ex.eval, FEx.eval, iha, ihb]; simp only [realArithOf, realArith]; ring
  | mul a b iha ihb => simp only [FEx.toEx, Ex.eval, FEx.eval, iha, ihb]; rfl
  | div a b iha ihb => simp only [FEx.toEx, Ex.eval, FEx.eval, iha, ihb]; simp only [realArithOf, realArith]; rw [div_eq_mul_inv]
  | neg a iha => simp only [FEx.toEx, Ex.eval, FEx.eval, iha]; rfl
  | pow a n iha => simp only [FEx.toEx, Ex.eval, FEx.eval, iha]; rfl
  | un f a iha => simp only [FEx.toEx, Ex.eval, FEx.eval, iha]; rfl
  | app1 f a iha => simp only [FEx.toEx, Ex.eval, FEx.eval, eval_vec1, iha]; rfl
  | app2 f a b iha ihb => simp only [FEx.toEx, Ex.eval, FEx.eval, eval_vec2, iha, ihb]; rfl
  | app3 f a b c iha ihb ihc => simp only [FEx.toEx, Ex.eval, FEx.eval, eval_vec3, iha, ihb, ihc]; rfl
  | app4 f a b c d iha ihb ihc ihd => simp only [FEx.toEx, Ex.eval, FEx.eval, eval_vec4, iha, ihb, ihc, ihd]; rfl
  | app5 f a b c d x iha ihb ihc ihd ihx => simp only [FEx.toEx, Ex.eval, FEx.eval, eval_vec5, iha, ihb, ihc, ihd, ihx]; rfl

/-- transfer: an exactness statement about the operation-order definition, read in the reals, is the value statement about the
`Ex` definition it forgets to -/
theorem exact_transfers (I : Interp) (σ : Nat → Nat) (ρ : Nat → ℝ) (f : FEx) (e : Ex) (h : FEx.toEx σ f = e) :
    Ex.eval I ρ e = FEx.eval (realArithOf I σ) ρ f := by
  rw [← h, eval_toEx]

/-- over the reals every value is "finite": side conditions that only ask for finiteness hold outright -/
def FEx.Cond.isFin : FEx.Cond → Bool
  | .fin _ => true
  | .nz _ => false

theorem allHold_of_isFin (A : Arith ℝ) (ρ : Nat → ℝ) (cs : List FEx.Cond) (h : ∀ c ∈ cs, c.isFin = true) :
    FEx.AllHold A (fun _ => True) ρ cs := by
  intro c hc
  cases c with
  | fin e => trivial
  | nz e => exact absurd (h _ hc) (by simp [FEx.Cond.isFin])

/-- side conditions over the reals: the finiteness ones hold outright, the non-zero ones are what remains to be assumed -/
theorem allHold_of_isFin_or (A : Arith ℝ) (ρ : Nat → ℝ) (cs ds : List FEx.Cond)
    (h : ∀ c ∈ cs, c.isFin = true ∨ c ∈ ds) (hd : FEx.AllHold A (fun _ => True) ρ ds) :
    FEx.AllHold A (fun _ => True) ρ cs := by
  intro c hc
  rcases h c hc with h1 | h1
  · cases c with
    | fin e => trivial
    | nz e => exact absurd h1 (by simp [FEx.Cond.isFin])
  · exact hd c h1

namespace Demo
/-- the value-mode initial-value formula as the library writes it: `u_0 + (1 - exp(-t + t_0)) * N(t)` (variables t, t_0, u_0) -/
def ivp : FEx := .add (.var 2) (.mul (.sub .one (.un .exp (.add (.neg (.var 0)) (.var 1)))) (.app1 0 (.var 0)))

/-- end to end: the exactness statement of the operation-order model (instance of `exact_at`), read in the arithmetic of the reals,
is the real-valued value statement about the expression the first translator produces (`toEx`) -/
example (I : Interp) (ρ : Nat → ℝ) : Ex.eval I (FEx.upd ρ 0 (ρ 1)) (FEx.toEx id ivp) = ρ 2 := by
  rw [eval_toEx]
  exact FEx.exact_at (realArithOf_exact I id) ivp 0 (.var 1) (.var 2) (by decide)
    (allHold_of_isFin _ ρ _ (by decide))
end Demo

end NdeVerif
