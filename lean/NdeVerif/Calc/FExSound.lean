/-
  Soundness of the exact-identity simplifier `FEx.normC` (Calc/FEx.lean), and the lemma the generated
  "exact value at the constrained point" theorems are instances of.
-/
import NdeVerif.Calc.FEx

namespace NdeVerif
namespace FEx

variable {α : Type}

def Cond.Holds (A : Arith α) (fin : α → Prop) (env : Nat → α) : Cond → Prop
  | .fin e => fin (eval A env e)
  | .nz e => eval A env e ≠ A.zero

def AllHold (A : Arith α) (fin : α → Prop) (env : Nat → α) (cs : List Cond) : Prop :=
  ∀ c ∈ cs, c.Holds A fin env

theorem allHold_append {A : Arith α} {fin : α → Prop} {env : Nat → α} {xs ys : List Cond} :
    AllHold A fin env (xs ++ ys) ↔ AllHold A fin env xs ∧ AllHold A fin env ys := by
  unfold AllHold
  constructor
  · intro h
    exact ⟨fun c hc => h c (List.mem_append_left _ hc), fun c hc => h c (List.mem_append_right _ hc)⟩
  · intro h c hc
    rcases List.mem_append.mp hc with h1 | h1
    · exact h.1 c h1
    · exact h.2 c h1

theorem allHold_mono {A : Arith α} {fin : α → Prop} {env : Nat → α} {cs ds : List Cond}
    (hsub : ∀ c ∈ cs, c ∈ ds) (h : AllHold A fin env ds) : AllHold A fin env cs :=
  fun c hc => h c (hsub c hc)

theorem allHold_nil {A : Arith α} {fin : α → Prop} {env : Nat → α} : AllHold A fin env [] := by
  intro c hc; cases hc

theorem allHold_single {A : Arith α} {fin : α → Prop} {env : Nat → α} {c : Cond} :
    AllHold A fin env [c] ↔ c.Holds A fin env := by
  unfold AllHold
  constructor
  · intro h; exact h c (List.mem_singleton.mpr rfl)
  · intro h d hd; rw [List.mem_singleton.mp hd]; exact h

theorem fin_of_finC {A : Arith α} {fin : α → Prop} (L : A.Exact fin) {env : Nat → α} {e : FEx}
    (h : AllHold A fin env (finC e)) : fin (eval A env e) := by
  unfold finC at h
  split at h
  · rename_i hz
    cases e with
    | zero => exact L.fin_zero
    | one => exact L.fin_one
    | lit p q => exact L.fin_lit p q
    | _ => simp [isLit] at hz
  · exact allHold_single.mp h

/-- environment with entry `v` replaced -/
def upd (env : Nat → α) (v : Nat) (x : α) : Nat → α := fun i => if i = v then x else env i

theorem eval_subst (A : Arith α) (env : Nat → α) (v : Nat) (e body : FEx) :
    eval A env (subst v e body) = eval A (upd env v (eval A env e)) body := by
  induction body with
  | var i =>
      by_cases h : i = v
      · subst h; simp [subst, upd, eval]
      · simp [subst, upd, eval, h]
  | zero => rfl
  | one => rfl
  | lit p q => rfl
  | pi => rfl
  | add a b iha ihb => simp only [subst, eval, iha, ihb]
  | sub a b iha ihb => simp only [subst, eval, iha, ihb]
  | mul a b iha ihb => simp only [subst, eval, iha, ihb]
  | div a b iha ihb => simp only [subst, eval, iha, ihb]
  | neg a iha => simp only [subst, eval, iha]
  | pow a n iha => simp only [subst, eval, iha]
  | un f a iha => simp only [subst, eval, iha]
  | app1 f a iha => simp only [subst, eval, iha]
  | app2 f a b iha ihb => simp only [subst, eval, iha, ihb]
  | app3 f a b c iha ihb ihc => simp only [subst, eval, iha, ihb, ihc]
  | app4 f a b c d iha ihb ihc ihd => simp only [subst, eval, iha, ihb, ihc, ihd]
  | app5 f a b c d x iha ihb ihc ihd ihx => simp only [subst, eval, iha, ihb, ihc, ihd, ihx]

/-- an expression that does not mention `f` has the same value whatever `f` is interpreted as -/
theorem eval_withApp (A : Arith α) (f : Nat) (F' : List α → α) (env : Nat → α) (e : FEx) (h : e.mentions f = false) :
    eval (A.withApp f F') env e = eval A env e := by
  induction e with
  | var i => rfl
  | zero => rfl
  | one => rfl
  | lit p q => rfl
  | pi => rfl
  | add a b iha ihb => simp only [mentions, Bool.or_eq_false_iff] at h; simp only [eval, iha h.1, ihb h.2]; rfl
  | sub a b iha ihb => simp only [mentions, Bool.or_eq_false_iff] at h; simp only [eval, iha h.1, ihb h.2]; rfl
  | mul a b iha ihb => simp only [mentions, Bool.or_eq_false_iff] at h; simp only [eval, iha h.1, ihb h.2]; rfl
  | div a b iha ihb => simp only [mentions, Bool.or_eq_false_iff] at h; simp only [eval, iha h.1, ihb h.2]; rfl
  | neg a iha => simp only [mentions] at h; simp only [eval, iha h]; rfl
  | pow a n iha => simp only [mentions] at h; simp only [eval, iha h]; rfl
  | un g a iha => simp only [mentions] at h; simp only [eval, iha h]; rfl
  | app1 g a iha =>
      simp only [mentions, Bool.or_eq_false_iff, beq_eq_false_iff_ne] at h
      simp only [eval]; rw [iha h.2]; simp only [Arith.withApp, if_neg h.1]
  | app2 g a b iha ihb =>
      simp only [mentions, Bool.or_eq_false_iff, beq_eq_false_iff_ne] at h
      simp only [eval]; rw [iha h.1.2, ihb h.2]; simp only [Arith.withApp, if_neg h.1.1]
  | app3 g a b c iha ihb ihc =>
      simp only [mentions, Bool.or_eq_false_iff, beq_eq_false_iff_ne] at h
      simp only [eval]; rw [iha h.1.1.2, ihb h.1.2, ihc h.2]; simp only [Arith.withApp, if_neg h.1.1.1]
  | app4 g a b c d iha ihb ihc ihd =>
      simp only [mentions, Bool.or_eq_false_iff, beq_eq_false_iff_ne] at h
      simp only [eval]; rw [iha h.1.1.1.2, ihb h.1.1.2, ihc h.1.2, ihd h.2]; simp only [Arith.withApp, if_neg h.1.1.1.1]
  | app5 g a b c d x iha ihb ihc ihd ihx =>
      simp only [mentions, Bool.or_eq_false_iff, beq_eq_false_iff_ne] at h
      simp only [eval]; rw [iha h.1.1.1.1.2, ihb h.1.1.1.2, ihc h.1.1.2, ihd h.1.2, ihx h.2]; simp only [Arith.withApp, if_neg h.1.1.1.1.1]

/-- the laws do not speak about opaque functions: they survive a change of network -/
theorem exact_withApp {A : Arith α} {fin : α → Prop} (L : A.Exact fin) (f : Nat) (F' : List α → α) : (A.withApp f F').Exact fin :=
  { L with }

variable {A : Arith α} {fin : α → Prop} (L : A.Exact fin) {env : Nat → α}
include L

theorem mkAdd_sound (a b : FEx) (h : AllHold A fin env (mkAdd a b).2) :
    eval A env (mkAdd a b).1 = A.add (eval A env a) (eval A env b) := by
  by_cases h1 : a = .zero
  · rw [mkAdd, if_pos h1, h1]; simp only [eval]; exact (L.zero_add _).symm
  by_cases h2 : b = .zero
  · rw [mkAdd, if_neg h1, if_pos h2, h2]; simp only [eval]; exact (L.add_zero _).symm
  by_cases h3 : a = .neg b
  · rw [mkAdd, if_neg h1, if_neg h2, if_pos h3] at h ⊢
    rw [h3]; simp only [eval]
    exact (L.neg_add_self _ (fin_of_finC L h)).symm
  by_cases h4 : b = .neg a
  · rw [mkAdd, if_neg h1, if_neg h2, if_neg h3, if_pos h4] at h ⊢
    rw [h4]; simp only [eval]
    exact (L.add_neg_self _ (fin_of_finC L h)).symm
  rw [mkAdd, if_neg h1, if_neg h2, if_neg h3, if_neg h4]; simp only [eval]

theorem mkSub_sound (a b : FEx) (h : AllHold A fin env (mkSub a b).2) :
    eval A env (mkSub a b).1 = A.sub (eval A env a) (eval A env b) := by
  by_cases h1 : b = .zero
  · rw [mkSub, if_pos h1, h1]; simp only [eval]; exact (L.sub_zero _).symm
  by_cases h2 : a = b
  · rw [mkSub, if_neg h1, if_pos h2] at h ⊢
    rw [h2] at h ⊢; simp only [eval]
    exact (L.sub_self _ (fin_of_finC L h)).symm
  rw [mkSub, if_neg h1, if_neg h2]; simp only [eval]

theorem mkMul_sound (a b : FEx) (h : AllHold A fin env (mkMul a b).2) :
    eval A env (mkMul a b).1 = A.mul (eval A env a) (eval A env b) := by
  by_cases h1 : a = .zero
  · rw [mkMul, if_pos h1] at h ⊢
    rw [h1]; simp only [eval]
    exact (L.zero_mul _ (fin_of_finC L h)).symm
  by_cases h2 : b = .zero
  · rw [mkMul, if_neg h1, if_pos h2] at h ⊢
    rw [h2]; simp only [eval]
    exact (L.mul_zero _ (fin_of_finC L h)).symm
  by_cases h3 : a = .one
  · rw [mkMul, if_neg h1, if_neg h2, if_pos h3, h3]; simp only [eval]; exact (L.one_mul _).symm
  by_cases h4 : b = .one
  · rw [mkMul, if_neg h1, if_neg h2, if_neg h3, if_pos h4, h4]; simp only [eval]; exact (L.mul_one _).symm
  rw [mkMul, if_neg h1, if_neg h2, if_neg h3, if_neg h4]; simp only [eval]

theorem mkDiv_sound (a b : FEx) (h : AllHold A fin env (mkDiv a b).2) :
    eval A env (mkDiv a b).1 = A.div (eval A env a) (eval A env b) := by
  by_cases h1 : b = .one
  · rw [mkDiv, if_pos h1, h1]; simp only [eval]; exact (L.div_one _).symm
  by_cases h2 : a = .zero
  · rw [mkDiv, if_neg h1, if_pos h2] at h ⊢
    rw [h2]; simp only [eval]
    have hh := allHold_append.mp h
    exact (L.zero_div _ (fin_of_finC L hh.1) (allHold_single.mp hh.2)).symm
  by_cases h3 : a = b
  · rw [mkDiv, if_neg h1, if_neg h2, if_pos h3] at h ⊢
    rw [h3] at h ⊢; simp only [eval]
    have hh := allHold_append.mp h
    exact (L.div_self _ (fin_of_finC L hh.1) (allHold_single.mp hh.2)).symm
  rw [mkDiv, if_neg h1, if_neg h2, if_neg h3]; simp only [eval]

theorem mkNeg_sound (a : FEx) : eval A env (mkNeg a).1 = A.neg (eval A env a) := by
  unfold mkNeg
  split
  · rename_i h1; subst h1; simp only [eval]; exact L.neg_zero.symm
  · simp only [eval]

theorem mkPow_sound (a : FEx) (n : Nat) : eval A env (mkPow a n).1 = A.pow (eval A env a) n := by
  unfold mkPow
  split
  · rename_i h1; subst h1; simp only [eval]; exact (L.pow_zero _).symm
  · split
    · rename_i _ h2; subst h2; exact (L.pow_one _).symm
    · split
      · rename_i h1 h2 h3; subst h3; simp only [eval]
        obtain ⟨k, rfl⟩ : ∃ k, n = k + 2 := ⟨n - 2, by omega⟩
        exact (L.zero_pow k).symm
      · split
        · rename_i _ _ _ h4; subst h4; simp only [eval]; exact (L.one_pow _).symm
        · simp only [eval]

theorem mkUn_sound (f : UF) (a : FEx) : eval A env (mkUn f a).1 = A.un f (eval A env a) := by
  unfold mkUn
  split
  · rename_i h1; subst h1
    cases f <;> simp only [eval]
    · exact L.exp_zero.symm
    · exact L.sin_zero.symm
    · exact L.cos_zero.symm
    · exact L.tanh_zero.symm
    · exact L.sqrt_zero.symm
    · exact L.abs_zero.symm
  · split
    · rename_i _ h2; subst h2
      cases f <;> simp only [eval]
      · exact L.log_one.symm
      · exact L.sqrt_one.symm
      · exact L.abs_one.symm
    · simp only [eval]

/-- the simplifier preserves the value in every arithmetic with the exact identities, provided the recorded side conditions hold -/
theorem normC_sound (e : FEx) (h : AllHold A fin env (normC e).2) :
    eval A env (normC e).1 = eval A env e := by
  induction e with
  | var i => rfl
  | zero => rfl
  | one => rfl
  | lit p q => rfl
  | pi => rfl
  | add a b iha ihb =>
      simp only [normC] at h ⊢
      have h1 := allHold_append.mp h
      have h2 := allHold_append.mp h1.1
      rw [mkAdd_sound L _ _ h1.2, iha h2.1, ihb h2.2]; simp only [eval]
  | sub a b iha ihb =>
      simp only [normC] at h ⊢
      have h1 := allHold_append.mp h
      have h2 := allHold_append.mp h1.1
      rw [mkSub_sound L _ _ h1.2, iha h2.1, ihb h2.2]; simp only [eval]
  | mul a b iha ihb =>
      simp only [normC] at h ⊢
      have h1 := allHold_append.mp h
      have h2 := allHold_append.mp h1.1
      rw [mkMul_sound L _ _ h1.2, iha h2.1, ihb h2.2]; simp only [eval]
  | div a b iha ihb =>
      simp only [normC] at h ⊢
      have h1 := allHold_append.mp h
      have h2 := allHold_append.mp h1.1
      rw [mkDiv_sound L _ _ h1.2, iha h2.1, ihb h2.2]; simp only [eval]
  | neg a iha =>
      simp only [normC] at h ⊢
      have h1 := allHold_append.mp h
      rw [mkNeg_sound L, iha h1.1]; simp only [eval]
  | pow a n iha =>
      simp only [normC] at h ⊢
      have h1 := allHold_append.mp h
      rw [mkPow_sound L, iha h1.1]; simp only [eval]
  | un f a iha =>
      simp only [normC] at h ⊢
      have h1 := allHold_append.mp h
      rw [mkUn_sound L, iha h1.1]; simp only [eval]
  | app1 f a iha =>
      simp only [normC] at h ⊢
      simp only [eval, iha h]
  | app2 f a b iha ihb =>
      simp only [normC] at h ⊢
      have h1 := allHold_append.mp h
      simp only [eval, iha h1.1, ihb h1.2]
  | app3 f a b c iha ihb ihc =>
      simp only [normC] at h ⊢
      have h1 := allHold_append.mp h
      have h2 := allHold_append.mp h1.1
      simp only [eval, iha h2.1, ihb h2.2, ihc h1.2]
  | app4 f a b c d iha ihb ihc ihd =>
      simp only [normC] at h ⊢
      have h1 := allHold_append.mp h
      have h2 := allHold_append.mp h1.1
      have h3 := allHold_append.mp h2.1
      simp only [eval, iha h3.1, ihb h3.2, ihc h2.2, ihd h1.2]
  | app5 f a b c d e iha ihb ihc ihd ihe =>
      simp only [normC] at h ⊢
      have h1 := allHold_append.mp h
      have h2 := allHold_append.mp h1.1
      have h3 := allHold_append.mp h2.1
      have h4 := allHold_append.mp h3.1
      simp only [eval, iha h4.1, ihb h4.2, ihc h3.2, ihd h2.2, ihe h1.2]

/-- What the generated theorems instantiate: if the simplifier turns the code, with the coordinate `v` replaced by `e` (a parameter
of the condition, or the literal 0), into `target`, then in every arithmetic with the exact identities the code evaluated at
`v := value of e` returns the value of `target`. -/
theorem exact_at (code : FEx) (v : Nat) (e : FEx) (target : FEx)
    (hn : (normC (subst v e code)).1 = target)
    (hc : AllHold A fin env (normC (subst v e code)).2) :
    eval A (upd env v (eval A env e)) code = eval A env target := by
  have h1 := normC_sound L (subst v e code) hc
  rw [hn] at h1
  rw [h1, eval_subst]

/-- same with two coordinates set (corners; a coordinate and a bundle column) -/
theorem exact_at2 (code : FEx) (v : Nat) (e : FEx) (v' : Nat) (e' : FEx) (target : FEx)
    (hn : (normC (subst v' e' (subst v e code))).1 = target)
    (hc : AllHold A fin env (normC (subst v' e' (subst v e code))).2) :
    eval A (upd (upd env v' (eval A env e')) v (eval A (upd env v' (eval A env e')) e)) code = eval A env target := by
  have h1 := normC_sound L (subst v' e' (subst v e code)) hc
  rw [hn] at h1
  rw [h1, eval_subst, eval_subst]

/-- Independence of the network, exactly: if the simplifier reduces the code at the constrained point to an expression that does
not mention the opaque function `f`, then replacing `f` by ANY other function leaves the value of the code at that point unchanged
(in every arithmetic with the exact identities; the side conditions are needed for both networks). -/
theorem network_free_at (code : FEx) (v : Nat) (e : FEx) (target : FEx) (f : Nat) (F' : List α → α)
    (hn : (normC (subst v e code)).1 = target)
    (hm : target.mentions f = false) (he : e.mentions f = false)
    (hc : AllHold A fin env (normC (subst v e code)).2)
    (hc' : AllHold (A.withApp f F') fin env (normC (subst v e code)).2) :
    eval (A.withApp f F') (upd env v (eval A env e)) code = eval A (upd env v (eval A env e)) code := by
  have h1 := exact_at L code v e target hn hc
  have h2 := exact_at (exact_withApp L f F') code v e target hn hc'
  rw [eval_withApp A f F' env e he] at h2
  rw [h1, h2, eval_withApp A f F' env target hm]

end FEx
end NdeVerif
