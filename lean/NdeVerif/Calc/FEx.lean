/-
  Operation-order model of the traced code ("float-shaped" expressions).

  `Ex` (Calc/Ex.lean) identifies `a - b` with `a + (-b)` and `a / b` with `a * b⁻¹`: fine over the reals, but it forgets
  the ORDER OF OPERATIONS of the source, and with it the reason why the constrained values are reproduced exactly in
  floating point.  `FEx` keeps every operation of the traced code as it is written.  `FEx.eval` interprets it in an
  arbitrary arithmetic `Arith α`; `Arith.Exact` lists the identities that hold EXACTLY in IEEE-754 arithmetic
  (for finite operands where marked); `FEx.normC` is a simplifier that uses nothing but these identities and
  records the side conditions it used.  Calc/FExSound.lean proves the simplifier sound, so a generated statement
      (normC (subst t t₀ code)).1 = .var u₀          -- checked by kernel evaluation
  yields: in EVERY arithmetic with these identities the code returns exactly u₀ at t = t₀.

  Mathlib-free and executable.
-/
import NdeVerif.Calc.Ex

namespace NdeVerif

inductive FEx : Type
  | var (i : Nat)
  | zero
  | one
  | lit (p : Int) (q : Nat)            -- any other literal of the source (rounded to the working precision: an opaque value)
  | pi
  | add (a b : FEx)
  | sub (a b : FEx)
  | mul (a b : FEx)
  | div (a b : FEx)
  | neg (a : FEx)
  | pow (a : FEx) (n : Nat)
  | un (f : UF) (a : FEx)
  | app1 (f : Nat) (a : FEx)           -- opaque functions (networks, boundary data): functions of the VALUES of their arguments
  | app2 (f : Nat) (a b : FEx)
  | app3 (f : Nat) (a b c : FEx)
  | app4 (f : Nat) (a b c d : FEx)
  | app5 (f : Nat) (a b c d e : FEx)
  deriving DecidableEq, Repr, Inhabited

/-- an arithmetic: a carrier with the operations the traced code uses -/
structure Arith (α : Type) where
  zero : α
  one : α
  lit : Int → Nat → α
  pi : α
  add : α → α → α
  sub : α → α → α
  mul : α → α → α
  div : α → α → α
  neg : α → α
  pow : α → Nat → α
  un : UF → α → α
  app : Nat → List α → α

namespace FEx

def eval {α : Type} (A : Arith α) (env : Nat → α) : FEx → α
  | .var i => env i
  | .zero => A.zero
  | .one => A.one
  | .lit p q => A.lit p q
  | .pi => A.pi
  | .add a b => A.add (eval A env a) (eval A env b)
  | .sub a b => A.sub (eval A env a) (eval A env b)
  | .mul a b => A.mul (eval A env a) (eval A env b)
  | .div a b => A.div (eval A env a) (eval A env b)
  | .neg a => A.neg (eval A env a)
  | .pow a n => A.pow (eval A env a) n
  | .un f a => A.un f (eval A env a)
  | .app1 f a => A.app f [eval A env a]
  | .app2 f a b => A.app f [eval A env a, eval A env b]
  | .app3 f a b c => A.app f [eval A env a, eval A env b, eval A env c]
  | .app4 f a b c d => A.app f [eval A env a, eval A env b, eval A env c, eval A env d]
  | .app5 f a b c d e => A.app f [eval A env a, eval A env b, eval A env c, eval A env d, eval A env e]

/-- substitution of `e` for variable `v` -/
def subst (v : Nat) (e : FEx) : FEx → FEx
  | .var i => if i = v then e else .var i
  | .zero => .zero
  | .one => .one
  | .lit p q => .lit p q
  | .pi => .pi
  | .add a b => .add (subst v e a) (subst v e b)
  | .sub a b => .sub (subst v e a) (subst v e b)
  | .mul a b => .mul (subst v e a) (subst v e b)
  | .div a b => .div (subst v e a) (subst v e b)
  | .neg a => .neg (subst v e a)
  | .pow a n => .pow (subst v e a) n
  | .un f a => .un f (subst v e a)
  | .app1 f a => .app1 f (subst v e a)
  | .app2 f a b => .app2 f (subst v e a) (subst v e b)
  | .app3 f a b c => .app3 f (subst v e a) (subst v e b) (subst v e c)
  | .app4 f a b c d => .app4 f (subst v e a) (subst v e b) (subst v e c) (subst v e d)
  | .app5 f a b c d x => .app5 f (subst v e a) (subst v e b) (subst v e c) (subst v e d) (subst v e x)

/-- does the opaque function `f` occur? -/
def mentions (f : Nat) : FEx → Bool
  | .var _ | .zero | .one | .lit _ _ | .pi => false
  | .add a b | .sub a b | .mul a b | .div a b => mentions f a || mentions f b
  | .neg a | .pow a _ | .un _ a => mentions f a
  | .app1 g a => g == f || mentions f a
  | .app2 g a b => g == f || mentions f a || mentions f b
  | .app3 g a b c => g == f || mentions f a || mentions f b || mentions f c
  | .app4 g a b c d => g == f || mentions f a || mentions f b || mentions f c || mentions f d
  | .app5 g a b c d e => g == f || mentions f a || mentions f b || mentions f c || mentions f d || mentions f e

/-- side conditions recorded by the simplifier: a value must be finite / must not be zero -/
inductive Cond
  | fin (e : FEx)
  | nz (e : FEx)
  deriving DecidableEq, Repr

/-- finiteness of the literals of the source needs no hypothesis -/
def isLit : FEx → Bool
  | .zero | .one | .lit _ _ => true
  | _ => false

def finC (e : FEx) : List Cond := if e.isLit then [] else [.fin e]

def mkAdd (a b : FEx) : FEx × List Cond :=
  if a = .zero then (b, [])
  else if b = .zero then (a, [])
  else if a = .neg b then (.zero, finC b)          -- (-x) + x
  else if b = .neg a then (.zero, finC a)          -- x + (-x)
  else (.add a b, [])

def mkSub (a b : FEx) : FEx × List Cond :=
  if b = .zero then (a, [])
  else if a = b then (.zero, finC a)
  else (.sub a b, [])

def mkMul (a b : FEx) : FEx × List Cond :=
  if a = .zero then (.zero, finC b)
  else if b = .zero then (.zero, finC a)
  else if a = .one then (b, [])
  else if b = .one then (a, [])
  else (.mul a b, [])

def mkDiv (a b : FEx) : FEx × List Cond :=
  if b = .one then (a, [])
  else if a = .zero then (.zero, finC b ++ [.nz b])
  else if a = b then (.one, finC a ++ [.nz a])
  else (.div a b, [])

def mkNeg (a : FEx) : FEx × List Cond :=
  if a = .zero then (.zero, []) else (.neg a, [])

def mkPow (a : FEx) (n : Nat) : FEx × List Cond :=
  if n = 0 then (.one, [])
  else if n = 1 then (a, [])
  else if a = .zero then (.zero, [])
  else if a = .one then (.one, [])
  else (.pow a n, [])

def mkUn (f : UF) (a : FEx) : FEx × List Cond :=
  if a = .zero then
    match f with
    | .exp => (.one, [])
    | .cos => (.one, [])
    | .sin => (.zero, [])
    | .tanh => (.zero, [])
    | .sqrt => (.zero, [])
    | .abs => (.zero, [])
    | .log => (.un .log a, [])
  else if a = .one then
    match f with
    | .sqrt => (.one, [])
    | .abs => (.one, [])
    | .log => (.zero, [])
    | _ => (.un f a, [])
  else (.un f a, [])

/-- bottom-up simplification with the exact identities only; second component: the side conditions used -/
def normC : FEx → FEx × List Cond
  | .var i => (.var i, [])
  | .zero => (.zero, [])
  | .one => (.one, [])
  | .lit p q => (.lit p q, [])
  | .pi => (.pi, [])
  | .add a b => let ra := normC a; let rb := normC b; let r := mkAdd ra.1 rb.1; (r.1, ra.2 ++ rb.2 ++ r.2)
  | .sub a b => let ra := normC a; let rb := normC b; let r := mkSub ra.1 rb.1; (r.1, ra.2 ++ rb.2 ++ r.2)
  | .mul a b => let ra := normC a; let rb := normC b; let r := mkMul ra.1 rb.1; (r.1, ra.2 ++ rb.2 ++ r.2)
  | .div a b => let ra := normC a; let rb := normC b; let r := mkDiv ra.1 rb.1; (r.1, ra.2 ++ rb.2 ++ r.2)
  | .neg a => let ra := normC a; let r := mkNeg ra.1; (r.1, ra.2 ++ r.2)
  | .pow a n => let ra := normC a; let r := mkPow ra.1 n; (r.1, ra.2 ++ r.2)
  | .un f a => let ra := normC a; let r := mkUn f ra.1; (r.1, ra.2 ++ r.2)
  | .app1 f a => let ra := normC a; (.app1 f ra.1, ra.2)
  | .app2 f a b => let ra := normC a; let rb := normC b; (.app2 f ra.1 rb.1, ra.2 ++ rb.2)
  | .app3 f a b c => let ra := normC a; let rb := normC b; let rc := normC c; (.app3 f ra.1 rb.1 rc.1, ra.2 ++ rb.2 ++ rc.2)
  | .app4 f a b c d =>
      let ra := normC a; let rb := normC b; let rc := normC c; let rd := normC d
      (.app4 f ra.1 rb.1 rc.1 rd.1, ra.2 ++ rb.2 ++ rc.2 ++ rd.2)
  | .app5 f a b c d e =>
      let ra := normC a; let rb := normC b; let rc := normC c; let rd := normC d; let re := normC e
      (.app5 f ra.1 rb.1 rc.1 rd.1 re.1, ra.2 ++ rb.2 ++ rc.2 ++ rd.2 ++ re.2)

end FEx

/-- the same arithmetic with another interpretation of the opaque function `f` (another network) -/
def Arith.withApp {α : Type} (A : Arith α) (f : Nat) (F' : List α → α) : Arith α :=
  { A with app := fun g xs => if g = f then F' xs else A.app g xs }

/-- The identities of IEEE-754 arithmetic (round-to-nearest, values compared numerically: -0 = +0) that the simplifier uses.
`fin x`: x is a finite number (not ±∞, not NaN).  Every law is an instance of "an operation whose exact result is
representable returns it" or of the special-value rules of the standard / of the correctly rounded libm values at 0 and 1. -/
structure Arith.Exact {α : Type} (A : Arith α) (fin : α → Prop) : Prop where
  add_zero : ∀ x, A.add x A.zero = x
  zero_add : ∀ x, A.add A.zero x = x
  neg_add_self : ∀ x, fin x → A.add (A.neg x) x = A.zero
  add_neg_self : ∀ x, fin x → A.add x (A.neg x) = A.zero
  sub_zero : ∀ x, A.sub x A.zero = x
  sub_self : ∀ x, fin x → A.sub x x = A.zero
  mul_zero : ∀ x, fin x → A.mul x A.zero = A.zero
  zero_mul : ∀ x, fin x → A.mul A.zero x = A.zero
  mul_one : ∀ x, A.mul x A.one = x
  one_mul : ∀ x, A.mul A.one x = x
  div_one : ∀ x, A.div x A.one = x
  zero_div : ∀ x, fin x → x ≠ A.zero → A.div A.zero x = A.zero
  div_self : ∀ x, fin x → x ≠ A.zero → A.div x x = A.one
  fin_zero : fin A.zero
  fin_one : fin A.one
  fin_lit : ∀ p q, fin (A.lit p q)
  neg_zero : A.neg A.zero = A.zero
  pow_zero : ∀ x, A.pow x 0 = A.one
  pow_one : ∀ x, A.pow x 1 = x
  zero_pow : ∀ n, A.pow A.zero (n + 2) = A.zero
  one_pow : ∀ n, A.pow A.one n = A.one
  exp_zero : A.un .exp A.zero = A.one
  cos_zero : A.un .cos A.zero = A.one
  sin_zero : A.un .sin A.zero = A.zero
  tanh_zero : A.un .tanh A.zero = A.zero
  sqrt_zero : A.un .sqrt A.zero = A.zero
  abs_zero : A.un .abs A.zero = A.zero
  sqrt_one : A.un .sqrt A.one = A.one
  abs_one : A.un .abs A.one = A.one
  log_one : A.un .log A.one = A.zero

end NdeVerif
