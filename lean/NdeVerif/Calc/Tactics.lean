/-
  Small helpers for the generated proof scripts.
-/
import NdeVerif.Calc.Lemmas
import Mathlib.Tactic.LinearCombination
import Mathlib.Tactic.Linarith
import Mathlib.Tactic.Positivity
import Mathlib.Tactic.NormNum

namespace NdeVerif
open Ex

theorem fin_succ_two_eq_three : Fin.succ (2 : Fin 3) = (3 : Fin 4) := rfl

theorem ok_fin1 (P : Fin 1 → Prop) : (∀ i, P i) ↔ P 0 := Fin.forall_fin_one
theorem ok_fin2 (P : Fin 2 → Prop) : (∀ i, P i) ↔ P 0 ∧ P 1 := Fin.forall_fin_two
theorem ok_fin3 (P : Fin 3 → Prop) : (∀ i, P i) ↔ P 0 ∧ P 1 ∧ P 2 := by
  constructor
  · intro h; exact ⟨h 0, h 1, h 2⟩
  · rintro ⟨a, b, c⟩ i; fin_cases i <;> assumption
theorem ok_fin4 (P : Fin 4 → Prop) : (∀ i, P i) ↔ P 0 ∧ P 1 ∧ P 2 ∧ P 3 := by
  constructor
  · intro h; exact ⟨h 0, h 1, h 2, h 3⟩
  · rintro ⟨a, b, c, d⟩ i; fin_cases i <;> assumption

theorem fin_succ_three_eq_four : Fin.succ (3 : Fin 4) = (4 : Fin 5) := rfl
theorem ok_fin5 (P : Fin 5 → Prop) : (∀ i, P i) ↔ P 0 ∧ P 1 ∧ P 2 ∧ P 3 ∧ P 4 := by
  constructor
  · intro h; exact ⟨h 0, h 1, h 2, h 3, h 4⟩
  · rintro ⟨a, b, c, d, e⟩ i; fin_cases i <;> assumption

/-- close a goal that is a conjunction of `True`s and non-vanishing side conditions -/
syntax "ok_close" "(" tacticSeq ")" : tactic
macro_rules
  | `(tactic| ok_close ($t)) =>
    `(tactic| (repeat' (first | exact trivial | constructor)) <;> (first | exact trivial | ($t)))

end NdeVerif

namespace NdeVerif

theorem one_sub_exp_ne_zero {a : ℝ} (ha : a ≠ 0) : 1 - Real.exp a ≠ 0 := by
  intro h
  have : Real.exp a = 1 := by linarith
  exact ha (Real.exp_eq_one_iff a |>.mp this)

theorem exp_sub_one_ne_zero {a : ℝ} (ha : a ≠ 0) : Real.exp a - 1 ≠ 0 := by
  intro h
  have : Real.exp a = 1 := by linarith
  exact ha (Real.exp_eq_one_iff a |>.mp this)

theorem ne_zero_of_mul_eq {p d q : ℝ} (h : p * d = q) (hq : q ≠ 0) : p ≠ 0 := by
  intro hp; apply hq; rw [← h, hp, zero_mul]

end NdeVerif
