/-
  Object language of the "calc" engine: expressions over coordinate columns, opaque smooth
  symbols (networks, boundary data, fields) with mixed partial derivatives, and a symbolic
  derivative `Ex.D`.  Mathlib-free and executable (used by the line-protocol driver too).
-/

namespace NdeVerif

/-- unary elementary functions that occur in the traced code -/
inductive UF
  | exp | sin | cos | tanh | log | sqrt | abs
  deriving DecidableEq, Repr, Inhabited

inductive Ex : Type
  | var (i : Nat)
  | nat (n : Nat)
  | rat (p : Int) (q : Nat)          -- p / q  (decimal literals of the source, exactly)
  | pi
  | add (a b : Ex)
  | mul (a b : Ex)
  | neg (a : Ex)
  | inv (a : Ex)
  | pow (a : Ex) (n : Nat)
  | un (f : UF) (a : Ex)
  | atan2 (a b : Ex)                 -- conversions only; never differentiated (D gives 0 with `ok = False`)
  | app (f : Nat) (n : Nat) (mi : Fin n → Nat) (args : Fin n → Ex)
  deriving Inhabited

namespace Ex

/-- bump the `i`-th entry of a multi-index -/
def inc {n} (mi : Fin n → Nat) (i : Fin n) : Fin n → Nat :=
  fun j => if j = i then mi j + 1 else mi j

def sumFin : (n : Nat) → (Fin n → Ex) → Ex
  | 0, _ => .nat 0
  | n+1, f => .add (f 0) (sumFin n (fun i => f i.succ))

def sub (a b : Ex) : Ex := .add a (.neg b)
def div (a b : Ex) : Ex := .mul a (.inv b)

/-- symbolic partial derivative with respect to variable `x` (all other variables fixed) -/
def D (x : Nat) : Ex → Ex
  | .var i => if i = x then .nat 1 else .nat 0
  | .nat _ => .nat 0
  | .rat _ _ => .nat 0
  | .pi => .nat 0
  | .add a b => .add (a.D x) (b.D x)
  | .mul a b => .add (.mul (a.D x) b) (.mul a (b.D x))
  | .neg a => .neg (a.D x)
  | .inv a => .neg (.mul (a.D x) (.inv (.pow a 2)))
  | .pow a n => .mul (.mul (.nat n) (.pow a (n-1))) (a.D x)
  | .un .exp a => .mul (.un .exp a) (a.D x)
  | .un .sin a => .mul (.un .cos a) (a.D x)
  | .un .cos a => .mul (.neg (.un .sin a)) (a.D x)
  | .un .tanh a => .mul (.add (.nat 1) (.neg (.pow (.un .tanh a) 2))) (a.D x)
  | .un .log a => .mul (.inv a) (a.D x)
  | .un .sqrt a => .mul (.inv (.mul (.nat 2) (.un .sqrt a))) (a.D x)
  | .un .abs a => .mul (.mul a (.inv (.un .abs a))) (a.D x)
  | .atan2 _ _ => .nat 0
  | .app f n mi args => sumFin n (fun i => .mul (.app f n (inc mi i) args) ((args i).D x))

/-- k-fold derivative -/
def iterD (x : Nat) : Nat → Ex → Ex
  | 0, e => e
  | k+1, e => (iterD x k e).D x

/-- capture-free substitution of `e` for variable `v` -/
def subst (v : Nat) (e : Ex) : Ex → Ex
  | .var i => if i = v then e else .var i
  | .nat n => .nat n
  | .rat p q => .rat p q
  | .pi => .pi
  | .add a b => .add (subst v e a) (subst v e b)
  | .mul a b => .mul (subst v e a) (subst v e b)
  | .neg a => .neg (subst v e a)
  | .inv a => .inv (subst v e a)
  | .pow a n => .pow (subst v e a) n
  | .un f a => .un f (subst v e a)
  | .atan2 a b => .atan2 (subst v e a) (subst v e b)
  | .app f n mi args => .app f n mi (fun i => subst v e (args i))

/-- does variable `x` occur? -/
def hasVar (x : Nat) : Ex → Bool
  | .var i => i == x
  | .nat _ | .rat _ _ | .pi => false
  | .add a b | .mul a b | .atan2 a b => a.hasVar x || b.hasVar x
  | .neg a | .inv a | .pow a _ | .un _ a => a.hasVar x
  | .app _ n _ args => (List.finRange n).any (fun i => (args i).hasVar x)

end Ex
end NdeVerif
