/-
  Real semantics of `Ex`, the smoothness hypothesis on interpretations, and the soundness
  theorem of the symbolic derivative (`D_sound`): the model of `torch.autograd.grad` used by
  every calc-engine property.
-/
import NdeVerif.Calc.Ex
import Mathlib.Analysis.SpecialFunctions.ExpDeriv
import Mathlib.Analysis.SpecialFunctions.Trigonometric.Deriv
import Mathlib.Analysis.SpecialFunctions.Trigonometric.DerivHyp
import Mathlib.Analysis.SpecialFunctions.Log.Deriv
import Mathlib.Analysis.SpecialFunctions.Sqrt
import Mathlib.Analysis.SpecialFunctions.Complex.Arg
import Mathlib.Analysis.Calculus.Deriv.Abs
import Mathlib.Analysis.Calculus.FDeriv.Pi
import Mathlib.Analysis.Calculus.Deriv.Prod
import Mathlib.Analysis.Calculus.Deriv.Inv
import Mathlib.Analysis.Calculus.Deriv.Pow
import Mathlib.Tactic.Ring
import Mathlib.Tactic.FinCases

namespace NdeVerif
open Ex

/-- interpretation of opaque symbols: symbol id, arity, multi-index of partial derivatives, point -/
structure Interp where
  fn : Nat → (n : Nat) → (Fin n → Nat) → (Fin n → ℝ) → ℝ

noncomputable def UF.ev : UF → ℝ → ℝ
  | .exp => Real.exp | .sin => Real.sin | .cos => Real.cos | .tanh => Real.tanh
  | .log => Real.log | .sqrt => Real.sqrt | .abs => fun x => |x|

/-- `torch.atan2 y x` = argument of `x + i y` -/
noncomputable def atan2R (y x : ℝ) : ℝ := Complex.arg ⟨x, y⟩

noncomputable def Ex.eval (I : Interp) (ρ : Nat → ℝ) : Ex → ℝ
  | .var i => ρ i
  | .nat n => (n : ℝ)
  | .rat p q => (p : ℝ) / (q : ℝ)
  | .pi => Real.pi
  | .add a b => a.eval I ρ + b.eval I ρ
  | .mul a b => a.eval I ρ * b.eval I ρ
  | .neg a => - a.eval I ρ
  | .inv a => (a.eval I ρ)⁻¹
  | .pow a n => (a.eval I ρ) ^ n
  | .un f a => f.ev (a.eval I ρ)
  | .atan2 a b => atan2R (a.eval I ρ) (b.eval I ρ)
  | .app f n mi args => I.fn f n mi (fun i => (args i).eval I ρ)

theorem eval_sumFin (I ρ) : ∀ n (f : Fin n → Ex), (sumFin n f).eval I ρ = ∑ i, (f i).eval I ρ
  | 0, f => by simp [sumFin, Ex.eval]
  | n+1, f => by simp [sumFin, Ex.eval, eval_sumFin I ρ n, Fin.sum_univ_succ]

/-- every symbol is differentiable in every multi-index, with partials given by bumping the index -/
def Smooth (I : Interp) : Prop :=
  ∀ f n mi p, HasFDerivAt (I.fn f n mi)
    (∑ i, (I.fn f n (inc mi i) p) • (ContinuousLinearMap.proj (R := ℝ) (φ := fun _ : Fin n => ℝ) i)) p

/-- side conditions under which `D` is the derivative: the arguments stay inside the open domain
of differentiability of each primitive -/
def Ex.ok (I : Interp) (ρ : Nat → ℝ) : Ex → Prop
  | .add a b | .mul a b => a.ok I ρ ∧ b.ok I ρ
  | .neg a | .pow a _ => a.ok I ρ
  | .inv a => a.ok I ρ ∧ a.eval I ρ ≠ 0
  | .un .log a | .un .sqrt a | .un .abs a => a.ok I ρ ∧ a.eval I ρ ≠ 0
  | .un _ a => a.ok I ρ
  | .atan2 _ _ => False
  | .app _ n _ args => ∀ i : Fin n, (args i).ok I ρ
  | _ => True

theorem hasDerivAt_tanh (x : ℝ) : HasDerivAt Real.tanh (1 - Real.tanh x ^ 2) x := by
  have hc : Real.cosh x ≠ 0 := (Real.cosh_pos x).ne'
  have h := (Real.hasDerivAt_sinh x).div (Real.hasDerivAt_cosh x) hc
  have hfun : Real.tanh = fun y => Real.sinh y / Real.cosh y := by
    funext y; exact Real.tanh_eq_sinh_div_cosh y
  rw [hfun]
  have hv : (1 - (Real.sinh x / Real.cosh x) ^ 2) =
      (Real.cosh x * Real.cosh x - Real.sinh x * Real.sinh x) / Real.cosh x ^ 2 := by
    field_simp
  rw [hv]; exact h

theorem D_sound (I : Interp) (hI : Smooth I) (x : Nat) (e : Ex) (ρ : Nat → ℝ) (h : e.ok I ρ) :
    HasDerivAt (fun v => e.eval I (Function.update ρ x v)) ((e.D x).eval I ρ) (ρ x) := by
  induction e with
  | var i =>
    by_cases hi : i = x
    · subst hi; simpa [Ex.eval, Ex.D] using hasDerivAt_id' (ρ i)
    · simpa [Ex.eval, Ex.D, hi] using hasDerivAt_const (ρ x) (ρ i)
  | nat n => simpa [Ex.eval, Ex.D] using hasDerivAt_const (ρ x) (n : ℝ)
  | rat p q => simpa [Ex.eval, Ex.D] using hasDerivAt_const (ρ x) ((p : ℝ) / (q : ℝ))
  | pi => simpa [Ex.eval, Ex.D] using hasDerivAt_const (ρ x) Real.pi
  | add a b iha ihb => simpa [Ex.eval, Ex.D] using (iha h.1).fun_add (ihb h.2)
  | mul a b iha ihb => simpa [Ex.eval, Ex.D] using (iha h.1).fun_mul (ihb h.2)
  | neg a iha => simpa [Ex.eval, Ex.D] using (iha h).fun_neg
  | inv a iha =>
    have h0 : a.eval I (Function.update ρ x (ρ x)) ≠ 0 := by simpa using h.2
    have := (iha h.1).fun_inv h0
    simp only [Function.update_eq_self] at this
    have hv : (a.inv.D x).eval I ρ = -(a.D x).eval I ρ / (a.eval I ρ)^2 := by
      simp [Ex.eval, Ex.D]; ring
    rw [hv]; exact this
  | pow a n iha =>
    have := (iha h).fun_pow n
    simp only [Function.update_eq_self] at this
    have hv : ((a.pow n).D x).eval I ρ = n * (a.eval I ρ)^(n-1) * (a.D x).eval I ρ := by
      simp [Ex.eval, Ex.D]
    rw [hv]; exact this
  | un f a iha =>
    cases f with
    | exp => simpa [Ex.eval, Ex.D, UF.ev, mul_comm] using (iha h).exp
    | sin => simpa [Ex.eval, Ex.D, UF.ev, mul_comm] using (iha h).sin
    | cos => simpa [Ex.eval, Ex.D, UF.ev, mul_comm] using (iha h).cos
    | tanh =>
      have := (hasDerivAt_tanh (a.eval I (Function.update ρ x (ρ x)))).comp (ρ x) (iha h)
      simp only [Function.update_eq_self] at this
      have hv : ((Ex.un .tanh a).D x).eval I ρ =
          (1 - Real.tanh (a.eval I ρ) ^ 2) * (a.D x).eval I ρ := by
        simp only [Ex.eval, Ex.D, UF.ev]; push_cast; ring
      rw [hv]; exact this
    | log =>
      have h0 : a.eval I (Function.update ρ x (ρ x)) ≠ 0 := by simpa using h.2
      have := (iha h.1).log h0
      simp only [Function.update_eq_self] at this
      have hv : ((Ex.un .log a).D x).eval I ρ = (a.D x).eval I ρ / a.eval I ρ := by
        simp [Ex.eval, Ex.D]; ring
      rw [hv]; exact this
    | sqrt =>
      have h0 : a.eval I (Function.update ρ x (ρ x)) ≠ 0 := by simpa using h.2
      have := (iha h.1).sqrt h0
      simp only [Function.update_eq_self] at this
      have hv : ((Ex.un .sqrt a).D x).eval I ρ =
          (a.D x).eval I ρ / (2 * Real.sqrt (a.eval I ρ)) := by
        simp [Ex.eval, Ex.D, UF.ev]; ring
      rw [hv]; exact this
    | abs =>
      have h0 : a.eval I (Function.update ρ x (ρ x)) ≠ 0 := by simpa using h.2
      have := (hasDerivAt_abs h0).comp (ρ x) (iha h.1)
      simp only [Function.update_eq_self] at this h0
      have hv : ((Ex.un .abs a).D x).eval I ρ =
          (SignType.sign (a.eval I ρ) : ℝ) * (a.D x).eval I ρ := by
        simp only [Ex.eval, Ex.D, UF.ev]
        rcases lt_or_gt_of_ne h0 with hn | hp
        · rw [abs_of_neg hn, sign_neg hn]
          have : a.eval I ρ * (-(a.eval I ρ))⁻¹ = -1 := by field_simp
          rw [this]; simp
        · rw [abs_of_pos hp, sign_pos hp]
          have : a.eval I ρ * (a.eval I ρ)⁻¹ = 1 := by field_simp
          rw [this]; simp
      rw [hv]; exact this
  | atan2 a b _ _ => exact absurd h (by simp [Ex.ok])
  | app f n mi args ih =>
    have hargs : HasDerivAt (fun v => fun i => (args i).eval I (Function.update ρ x v))
        (fun i => ((args i).D x).eval I ρ) (ρ x) :=
      hasDerivAt_pi.2 (fun i => ih i (h i))
    have hf := hI f n mi (fun i => (args i).eval I (Function.update ρ x (ρ x)))
    have := hf.comp_hasDerivAt (ρ x) hargs
    simp only [Function.update_eq_self] at this
    have hv : ((Ex.app f n mi args).D x).eval I ρ =
        (∑ i, (I.fn f n (inc mi i) (fun i => (args i).eval I ρ)) •
            (ContinuousLinearMap.proj (R := ℝ) (φ := fun _ : Fin n => ℝ) i))
          (fun i => ((args i).D x).eval I ρ) := by
      simp [Ex.eval, Ex.D, eval_sumFin]
    rw [hv]; exact this

end NdeVerif
