/-
  C11 (hand-written part): the infinite-domain spherical condition converges to `g` as r → ∞,
  for every decay order k > 0 and every network whose output is bounded along the ray.
  The traced definition `GenC11.inf` is tied to the reference form by the generated, certificate-checked
  theorem `GenC11.inf_eq_ref`; the analytic part below is static.
-/
import NdeVerif.Gen.C11
import Mathlib.Analysis.SpecialFunctions.Exp
import Mathlib.Topology.Algebra.Order.Field
import Mathlib.Analysis.SpecificLimits.Basic

namespace NdeVerif.C11
open Filter Topology NdeVerif

theorem tanh_eq_ratio (x : ℝ) :
    Real.tanh x = (1 - Real.exp (-(2 * x))) / (1 + Real.exp (-(2 * x))) := by
  rw [Real.tanh_eq]
  have h1 : Real.exp (-(2 * x)) = Real.exp (-x) * Real.exp (-x) := by
    rw [← Real.exp_add]; congr 1; ring
  have h2 : Real.exp x * Real.exp (-x) = 1 := by rw [← Real.exp_add]; simp
  have hp : 0 < Real.exp x + Real.exp (-x) := by positivity
  have hq : 0 < 1 + Real.exp (-(2 * x)) := by positivity
  rw [div_eq_div_iff hp.ne' hq.ne', h1]
  linear_combination (2 * Real.exp (-x)) * h2

theorem tendsto_tanh_atTop : Tendsto Real.tanh atTop (𝓝 1) := by
  have he : Tendsto (fun x : ℝ => Real.exp (-(2 * x))) atTop (𝓝 0) :=
    Real.tendsto_exp_neg_atTop_nhds_zero.comp (tendsto_id.const_mul_atTop (by norm_num : (0:ℝ) < 2))
  have h := ((tendsto_const_nhds (x := (1:ℝ))).sub he).div ((tendsto_const_nhds (x := (1:ℝ))).add he)
    (by norm_num)
  have h' : Tendsto Real.tanh atTop (𝓝 ((1 - 0) / (1 + 0))) :=
    h.congr (fun x => by simp only [Pi.div_apply]; exact (tanh_eq_ratio x).symm)
  simpa using h'

/-- the reference form of `InfDirichletBVPSpherical.parameterize` converges to the value at infinity -/
theorem inf_ref_tendsto (fv gv k r0 : ℝ) (N : ℝ → ℝ) (hk : 0 < k) (hN : ∃ M, ∀ r, |N r| ≤ M) :
    Tendsto (fun r => fv * Real.exp (-k * (r + -r0)) + gv * Real.tanh (r + -r0)
        + Real.exp (-k * (r + -r0)) * Real.tanh (r + -r0) * N r) atTop (𝓝 gv) := by
  obtain ⟨M, hM⟩ := hN
  have hshift : Tendsto (fun r : ℝ => r + -r0) atTop atTop := tendsto_atTop_add_const_right _ _ tendsto_id
  have hE : Tendsto (fun r : ℝ => Real.exp (-k * (r + -r0))) atTop (𝓝 0) := by
    have : Tendsto (fun r : ℝ => k * (r + -r0)) atTop atTop := hshift.const_mul_atTop hk
    have h2 := Real.tendsto_exp_neg_atTop_nhds_zero.comp this
    refine h2.congr (fun r => ?_)
    simp only [Function.comp]; congr 1; ring
  have hT : Tendsto (fun r : ℝ => Real.tanh (r + -r0)) atTop (𝓝 1) := tendsto_tanh_atTop.comp hshift
  have h1 : Tendsto (fun r : ℝ => fv * Real.exp (-k * (r + -r0))) atTop (𝓝 0) := by
    simpa using hE.const_mul fv
  have h2 : Tendsto (fun r : ℝ => gv * Real.tanh (r + -r0)) atTop (𝓝 gv) := by
    simpa using hT.const_mul gv
  have h3 : Tendsto (fun r : ℝ => Real.exp (-k * (r + -r0)) * Real.tanh (r + -r0) * N r) atTop (𝓝 0) := by
    have hb : Tendsto (fun r : ℝ => Real.exp (-k * (r + -r0)) * |M|) atTop (𝓝 0) := by
      simpa using hE.mul_const |M|
    refine squeeze_zero_norm (fun r => ?_) hb
    rw [Real.norm_eq_abs, abs_mul, abs_mul, abs_of_pos (Real.exp_pos _), mul_assoc]
    apply mul_le_mul_of_nonneg_left _ (Real.exp_pos _).le
    have ht : |Real.tanh (r + -r0)| ≤ 1 := (Real.abs_tanh_lt_one _).le
    have hn : |N r| ≤ |M| := (hM r).trans (le_abs_self M)
    calc |Real.tanh (r + -r0)| * |N r| ≤ 1 * |M| :=
          mul_le_mul ht hn (abs_nonneg _) zero_le_one
      _ = |M| := one_mul _
  simpa using (h1.add h2).add h3

/-- C11, limit clause, about the traced code: for every decay order k > 0, every smooth-or-not network symbol
bounded along the ray, the enforced function tends to g(θ, φ) as r → ∞ -/
theorem inf_limit (I : Interp) (th ph r0 k : ℝ) (hk : 0 < k)
    (hb : ∃ M, ∀ r, |I.fn GenC11.inf_symN 3 ![0, 0, 0] ![r, th, ph]| ≤ M) :
    Tendsto (fun r => Ex.eval I (env [r, th, ph, r0, k]) GenC11.inf) atTop
      (𝓝 (I.fn GenC11.inf_symG 2 ![0, 0] ![th, ph])) := by
  have href := inf_ref_tendsto (I.fn GenC11.inf_symF 2 ![0, 0] ![th, ph]) (I.fn GenC11.inf_symG 2 ![0, 0] ![th, ph])
    k r0 (fun r => I.fn GenC11.inf_symN 3 ![0, 0, 0] ![r, th, ph]) hk hb
  refine href.congr (fun r => ?_)
  rw [GenC11.inf_eq_ref I r th ph r0 k]

/-- the hypotheses of `inf_limit` are satisfiable (bounded network: the zero interpretation) -/
theorem inf_limit_nonvacuous : ∃ I : Interp, ∃ M : ℝ, ∀ r th ph : ℝ,
    |I.fn GenC11.inf_symN 3 ![0, 0, 0] ![r, th, ph]| ≤ M :=
  ⟨⟨fun _ _ _ _ => 0⟩, 0, fun _ _ _ => by simp⟩

end NdeVerif.C11
