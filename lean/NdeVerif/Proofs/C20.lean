/-
  C20 — legacy space-time API: on-domain samplers on every draw, mini-batches partition the training set,
  one history entry per epoch and series.  Theorems about `NdeVerif.Temporal` (the model tied to
  `neurodiffeq/temporal.py` by the correspondence check of ./check C20).  The initial-state clauses
  (approximators at t = 0) are in the generated file `NdeVerif/Gen/C20.lean`.
-/
import NdeVerif.Model.Temporal
import Mathlib.Data.Real.Basic
import Mathlib.Tactic.Ring
import Mathlib.Tactic.Linarith
import Mathlib.Tactic.FieldSimp
import Mathlib.Tactic.Positivity

namespace NdeVerif.C20
open NdeVerif.Temporal

/-- the real-number reading of the sampler arithmetic -/
noncomputable def LR : Lit ℝ := ⟨fun n => (n : ℝ), 1 / 2⟩

/-! ### `torch.linspace` between the first and the last stratum centre gives every stratum centre -/

theorem linspace_mid (a w lo hi : ℝ) (n : ℕ) (hn : 1 ≤ n) (hlo : lo = a + w / 2) (hhi : hi = a + n * w - w / 2) :
    linspace LR lo hi n = (List.range n).map (fun (i : ℕ) => a + ((i : ℝ) + 1 / 2) * w) := by
  unfold linspace
  split
  · next h => subst h; simp [hlo]; ring
  · next h =>
    have h2 : 2 ≤ n := by omega
    have hc : ((n - 1 : ℕ) : ℝ) = (n : ℝ) - 1 := by rw [Nat.cast_sub hn]; simp
    have hne : (n : ℝ) - 1 ≠ 0 := by
      have : (2:ℝ) ≤ n := by exact_mod_cast h2
      linarith
    have hstep : (hi - lo) / LR.ofNat (n - 1) = w := by
      show (hi - lo) / ((n - 1 : ℕ) : ℝ) = w
      rw [hc, hlo, hhi]; field_simp; ring
    simp only [hstep]
    apply List.map_congr_left
    intro i hi'
    have hi'' : i < n := List.mem_range.mp hi'
    split
    · show lo + w * (i:ℝ) = _
      rw [hlo]; ring
    · show hi - w * ((n - 1 - i : ℕ) : ℝ) = _
      have : ((n - 1 - i : ℕ) : ℝ) = (n:ℝ) - 1 - i := by
        rw [Nat.cast_sub (by omega), hc]
      rw [this, hhi]; ring

/-- centre `i` plus the scaled draw: `a + (i + r_i)·w` — the jitter keeps the point in stratum `i` -/
theorem jitter_getElem (a w : ℝ) (n : ℕ) (rand : List ℝ) (hlen : rand.length = n) (i : ℕ) (p : ℝ)
    (h : (List.zipWith (· + ·) ((List.range n).map (fun (i : ℕ) => a + ((i : ℝ) + 1 / 2) * w))
            (rand.map fun r => w * r + (-w) * (1 / 2)))[i]? = some p) :
    ∃ r, rand[i]? = some r ∧ p = a + ((i : ℝ) + r) * w := by
  obtain ⟨hi, rfl⟩ := List.getElem?_eq_some_iff.mp h
  have hi' : i < n := by simp [List.length_zipWith] at hi; omega
  refine ⟨rand[i]'(by omega), by simp [hlen, hi'], ?_⟩
  simp [List.getElem_zipWith]; ring

/-! ### `generator_1dspatial` -/

/-- a frame that differs from `g0` at most in the rebound local `noise` -/
def Inv1d (g0 g : Gen1D ℝ) : Prop := ∃ ns, g = { g0 with noise := ns }

theorem gen1dNext_inv (g0 g : Gen1D ℝ) (h : Inv1d g0 g) (r : List ℝ) :
    Inv1d g0 (gen1dNext g r).1 ∧ (gen1dNext g r).2 = (gen1dNext g0 r).2 := by
  obtain ⟨ns, rfl⟩ := h
  unfold gen1dNext
  by_cases hr : g0.random = true <;> simp [hr, Inv1d]

/-- **the state that matters never changes**: the k-th draw of a generator object, however late, is the
first-draw function of the initial frame applied to the k-th `torch.rand` result -/
theorem run1d_eq_map (g0 : Gen1D ℝ) : ∀ (rs : List (List ℝ)) (g : Gen1D ℝ), Inv1d g0 g →
    run1d g rs = rs.map (fun r => (gen1dNext g0 r).2) := by
  intro rs
  induction rs with
  | nil => intro g _; rfl
  | cons r rs ih =>
    intro g hg
    have := gen1dNext_inv g0 g hg r
    simp only [run1d, List.map_cons, this.2, ih _ this.1]

theorem gen1dInit_center (n : ℕ) (hn : 1 ≤ n) (xMin xMax : ℝ) (random : Bool) :
    (gen1dInit LR n xMin xMax random).center =
      (List.range n).map (fun (i : ℕ) => xMin + ((i : ℝ) + 1 / 2) * ((xMax - xMin) / n)) := by
  have hn' : (n : ℝ) ≠ 0 := by positivity
  unfold gen1dInit
  simp only []
  apply linspace_mid _ _ _ _ _ hn
  · show xMin + (xMax - xMin) / (n : ℝ) * (1 / 2) = _
    ring
  · show xMax - (xMax - xMin) / (n : ℝ) * (1 / 2) = _
    field_simp; ring

/-- admissible `torch.rand(size)` result: `size` numbers in [0, 1) -/
def UnitDraw (n : ℕ) (r : List ℝ) : Prop := r.length = n ∧ ∀ u ∈ r, 0 ≤ u ∧ u < 1

/-- one draw of a fresh-or-late frame: `size` points, the i-th is `x_min + (i + s)·w` with `0 ≤ s < 1` -/
theorem gen1d_draw_form (n : ℕ) (hn : 1 ≤ n) (xMin xMax : ℝ) (random : Bool) (r : List ℝ)
    (hr : random = true → UnitDraw n r) :
    let pts := (gen1dNext (gen1dInit LR n xMin xMax random) r).2
    pts.length = n ∧ ∀ (i : ℕ) (p : ℝ), pts[i]? = some p →
      ∃ s : ℝ, 0 ≤ s ∧ s < 1 ∧ p = xMin + ((i : ℝ) + s) * ((xMax - xMin) / n) := by
  intro pts
  have hc := gen1dInit_center n hn xMin xMax random
  cases random with
  | false =>
    have hp : pts = (gen1dInit LR n xMin xMax false).center := by
      simp [pts, gen1dNext, gen1dInit]
    rw [hp, hc]
    refine ⟨by simp, ?_⟩
    intro i p h
    obtain ⟨hi, rfl⟩ := List.getElem?_eq_some_iff.mp h
    exact ⟨1 / 2, by norm_num, by norm_num, by simp⟩
  | true =>
    obtain ⟨hlen, hu⟩ := hr rfl
    have hp : pts = List.zipWith (· + ·) (gen1dInit LR n xMin xMax true).center
        (r.map fun u => ((xMax - xMin) / n) * u + (-((xMax - xMin) / n)) * (1 / 2)) := by
      simp [pts, gen1dNext, gen1dInit, LR]
    rw [hp, hc]
    refine ⟨by simp [hlen], ?_⟩
    intro i p h
    obtain ⟨u, hu1, hu2⟩ := jitter_getElem xMin ((xMax - xMin) / n) n r hlen i p h
    have := hu u (List.mem_of_getElem? hu1)
    exact ⟨u, this.1, this.2, hu2⟩

/-- **C20, 1-D sampler, point form** — every draw `k` (however late) of the same generator object, random on
or off, either orientation of the bounds: `size` points, the i-th equals `x_min + (i + s)·w`, `0 ≤ s < 1`,
`w = (x_max − x_min)/size`. -/
theorem sampler1d_point_form (n : ℕ) (hn : 1 ≤ n) (xMin xMax : ℝ) (random : Bool) (rands : List (List ℝ))
    (hr : random = true → ∀ r ∈ rands, UnitDraw n r) :
    ∀ (k : ℕ) (pts : List ℝ), (run1d (gen1dInit LR n xMin xMax random) rands)[k]? = some pts →
      pts.length = n ∧ ∀ (i : ℕ) (p : ℝ), pts[i]? = some p →
        ∃ s : ℝ, 0 ≤ s ∧ s < 1 ∧ p = xMin + ((i : ℝ) + s) * ((xMax - xMin) / n) := by
  intro k pts h
  rw [run1d_eq_map _ _ _ ⟨_, rfl⟩, List.getElem?_map] at h
  cases hk : rands[k]? with
  | none => simp [hk] at h
  | some r =>
    simp only [hk, Option.map_some, Option.some.injEq] at h
    subst h
    exact gen1d_draw_form n hn xMin xMax random r (fun ht => hr ht r (List.mem_of_getElem? hk))

/-- **C20, 1-D sampler** — for `x_min ≤ x_max`: on every draw the i-th point lies in the i-th of the `size`
equal-width strata `[x_min + i·w, x_min + (i+1)·w]` (one point per stratum), hence inside `[x_min, x_max]`. -/
theorem sampler1d_in_stratum (n : ℕ) (hn : 1 ≤ n) (xMin xMax : ℝ) (hle : xMin ≤ xMax) (random : Bool)
    (rands : List (List ℝ)) (hr : random = true → ∀ r ∈ rands, UnitDraw n r) :
    ∀ (k : ℕ) (pts : List ℝ), (run1d (gen1dInit LR n xMin xMax random) rands)[k]? = some pts →
      pts.length = n ∧ ∀ (i : ℕ) (p : ℝ), pts[i]? = some p →
        (xMin + (i : ℝ) * ((xMax - xMin) / n) ≤ p ∧ p ≤ xMin + ((i : ℝ) + 1) * ((xMax - xMin) / n)) ∧
        (xMin ≤ p ∧ p ≤ xMax) := by
  intro k pts h
  obtain ⟨hlen, hform⟩ := sampler1d_point_form n hn xMin xMax random rands hr k pts h
  refine ⟨hlen, ?_⟩
  intro i p hp
  obtain ⟨s, hs0, hs1, rfl⟩ := hform i p hp
  have hi : i < n := by
    obtain ⟨hi, _⟩ := List.getElem?_eq_some_iff.mp hp
    omega
  have hn' : (0 : ℝ) < n := by positivity
  have hw : 0 ≤ (xMax - xMin) / n := div_nonneg (by linarith) hn'.le
  have hnw : (n : ℝ) * ((xMax - xMin) / n) = xMax - xMin := by field_simp
  have hi' : (i : ℝ) + 1 ≤ n := by exact_mod_cast hi
  have hi0 : (0 : ℝ) ≤ i := by positivity
  refine ⟨⟨by nlinarith, by nlinarith⟩, by nlinarith, ?_⟩
  have : ((i : ℝ) + s) * ((xMax - xMin) / n) ≤ (n : ℝ) * ((xMax - xMin) / n) :=
    mul_le_mul_of_nonneg_right (by linarith) hw
  linarith

/-- reversed bounds (`x_max ≤ x_min`, which the API accepts): the strata are traversed downwards -/
theorem sampler1d_in_stratum_reversed (n : ℕ) (hn : 1 ≤ n) (xMin xMax : ℝ) (hle : xMax ≤ xMin) (random : Bool)
    (rands : List (List ℝ)) (hr : random = true → ∀ r ∈ rands, UnitDraw n r) :
    ∀ (k : ℕ) (pts : List ℝ), (run1d (gen1dInit LR n xMin xMax random) rands)[k]? = some pts →
      pts.length = n ∧ ∀ (i : ℕ) (p : ℝ), pts[i]? = some p →
        (xMin + ((i : ℝ) + 1) * ((xMax - xMin) / n) ≤ p ∧ p ≤ xMin + (i : ℝ) * ((xMax - xMin) / n)) ∧
        (xMax ≤ p ∧ p ≤ xMin) := by
  intro k pts h
  obtain ⟨hlen, hform⟩ := sampler1d_point_form n hn xMin xMax random rands hr k pts h
  refine ⟨hlen, ?_⟩
  intro i p hp
  obtain ⟨s, hs0, hs1, rfl⟩ := hform i p hp
  have hi : i < n := by
    obtain ⟨hi, _⟩ := List.getElem?_eq_some_iff.mp hp
    omega
  have hn' : (0 : ℝ) < n := by positivity
  have hw : (xMax - xMin) / n ≤ 0 := div_nonpos_of_nonpos_of_nonneg (by linarith) hn'.le
  have hnw : (n : ℝ) * ((xMax - xMin) / n) = xMax - xMin := by field_simp
  have hi' : (i : ℝ) + 1 ≤ n := by exact_mod_cast hi
  have hi0 : (0 : ℝ) ≤ i := by positivity
  refine ⟨⟨by nlinarith, by nlinarith⟩, ?_, by nlinarith⟩
  have : (n : ℝ) * ((xMax - xMin) / n) ≤ ((i : ℝ) + s) * ((xMax - xMin) / n) :=
    mul_le_mul_of_nonpos_right (by linarith) hw
  linarith

/-! ### `generator_temporal` — same body as `generator_1dspatial`; the model keeps it separate, the proofs transfer -/

def toGen1D (g : GenT ℝ) : Gen1D ℝ := ⟨g.size, g.random, g.segLen, g.center, g.noiseLo, g.noise⟩

theorem genTInit_to (n : ℕ) (a b : ℝ) (random : Bool) :
    toGen1D (genTInit LR n a b random) = gen1dInit LR n a b random := rfl

theorem genTNext_to (g : GenT ℝ) (r : List ℝ) :
    toGen1D (genTNext g r).1 = (gen1dNext (toGen1D g) r).1 ∧ (genTNext g r).2 = (gen1dNext (toGen1D g) r).2 := by
  unfold genTNext gen1dNext
  cases h : g.random <;> simp [toGen1D, h]

theorem runT_eq : ∀ (rs : List (List ℝ)) (g : GenT ℝ), runT g rs = run1d (toGen1D g) rs := by
  intro rs
  induction rs with
  | nil => intro g; rfl
  | cons r rs ih =>
    intro g
    have := genTNext_to g r
    simp only [runT, run1d, ih, this.1, this.2]

/-- **C20, temporal sampler** — every draw, `t_min ≤ t_max`: i-th point in the i-th stratum, inside `[t_min, t_max]` -/
theorem samplerT_in_stratum (n : ℕ) (hn : 1 ≤ n) (tMin tMax : ℝ) (hle : tMin ≤ tMax) (random : Bool)
    (rands : List (List ℝ)) (hr : random = true → ∀ r ∈ rands, UnitDraw n r) :
    ∀ (k : ℕ) (pts : List ℝ), (runT (genTInit LR n tMin tMax random) rands)[k]? = some pts →
      pts.length = n ∧ ∀ (i : ℕ) (p : ℝ), pts[i]? = some p →
        (tMin + (i : ℝ) * ((tMax - tMin) / n) ≤ p ∧ p ≤ tMin + ((i : ℝ) + 1) * ((tMax - tMin) / n)) ∧
        (tMin ≤ p ∧ p ≤ tMax) := by
  intro k pts h
  rw [runT_eq, genTInit_to] at h
  exact sampler1d_in_stratum n hn tMin tMax hle random rands hr k pts h

theorem samplerT_in_stratum_reversed (n : ℕ) (hn : 1 ≤ n) (tMin tMax : ℝ) (hle : tMax ≤ tMin) (random : Bool)
    (rands : List (List ℝ)) (hr : random = true → ∀ r ∈ rands, UnitDraw n r) :
    ∀ (k : ℕ) (pts : List ℝ), (runT (genTInit LR n tMin tMax random) rands)[k]? = some pts →
      pts.length = n ∧ ∀ (i : ℕ) (p : ℝ), pts[i]? = some p →
        (tMin + ((i : ℝ) + 1) * ((tMax - tMin) / n) ≤ p ∧ p ≤ tMin + (i : ℝ) * ((tMax - tMin) / n)) ∧
        (tMax ≤ p ∧ p ≤ tMin) := by
  intro k pts h
  rw [runT_eq, genTInit_to] at h
  exact sampler1d_in_stratum_reversed n hn tMin tMax hle random rands hr k pts h

/-! ### `generator_2dspatial_segment` -/

/-- a frame that differs from `g0` at most in the rebound locals `noise`, `pos` (in particular: same `center`) -/
def InvSeg (g0 g : GenSeg ℝ) : Prop := ∃ ns ps, g = { g0 with noise := ns, pos := ps }

theorem genSegNext_inv (g0 g : GenSeg ℝ) (h : InvSeg g0 g) (r : List ℝ) :
    InvSeg g0 (genSegNext g r).1 ∧ (genSegNext g r).2 = (genSegNext g0 r).2 := by
  obtain ⟨ns, ps, rfl⟩ := h
  unfold genSegNext
  by_cases hr : g0.random = true <;> simp [hr, InvSeg]

theorem runSeg_eq_map (g0 : GenSeg ℝ) : ∀ (rs : List (List ℝ)) (g : GenSeg ℝ), InvSeg g0 g →
    runSeg g rs = rs.map (fun r => (genSegNext g0 r).2) := by
  intro rs
  induction rs with
  | nil => intro g _; rfl
  | cons r rs ih =>
    intro g hg
    have := genSegNext_inv g0 g hg r
    simp only [runSeg, List.map_cons, this.2, ih _ this.1]

theorem genSegInit_center (n : ℕ) (hn : 1 ≤ n) (x1 y1 x2 y2 : ℝ) (random : Bool) :
    (genSegInit LR n x1 y1 x2 y2 random).center =
      (List.range n).map (fun (i : ℕ) => (0 : ℝ) + ((i : ℝ) + 1 / 2) * (1 / n)) := by
  have hn' : (n : ℝ) ≠ 0 := by positivity
  unfold genSegInit
  simp only []
  apply linspace_mid _ _ _ _ _ hn
  · show ((0 : ℕ) : ℝ) + 1 / 2 * (((1 : ℕ) : ℝ) / (n : ℝ)) = _
    push_cast; ring
  · show ((1 : ℕ) : ℝ) - 1 / 2 * (((1 : ℕ) : ℝ) / (n : ℝ)) = _
    push_cast; field_simp; ring

/-- the relative positions `pos` of one draw: `size` numbers, the i-th is `(i + s)/size`, `0 ≤ s < 1` -/
theorem seg_pos_form (n : ℕ) (hn : 1 ≤ n) (x1 y1 x2 y2 : ℝ) (random : Bool) (r : List ℝ)
    (hr : random = true → UnitDraw n r) :
    let pos := (genSegNext (genSegInit LR n x1 y1 x2 y2 random) r).1.pos
    pos.length = n ∧ ∀ (i : ℕ) (c : ℝ), pos[i]? = some c → (i : ℝ) / n ≤ c ∧ c ≤ ((i : ℝ) + 1) / n := by
  intro pos
  have hc := genSegInit_center n hn x1 y1 x2 y2 random
  have hn' : (0 : ℝ) < n := by positivity
  cases random with
  | false =>
    have hp : pos = (genSegInit LR n x1 y1 x2 y2 false).center := by
      simp [pos, genSegNext, genSegInit]
    rw [hp, hc]
    refine ⟨by simp, ?_⟩
    intro i c h
    obtain ⟨hi, rfl⟩ := List.getElem?_eq_some_iff.mp h
    simp only [List.getElem_map, List.getElem_range]
    constructor
    · rw [div_le_iff₀ hn']; field_simp; linarith
    · rw [le_div_iff₀ hn']; field_simp; linarith
  | true =>
    obtain ⟨hlen, hu⟩ := hr rfl
    have hp : pos = List.zipWith (· + ·) (genSegInit LR n x1 y1 x2 y2 true).center
        (r.map fun u => (1 / (n : ℝ)) * u + (-(1 / (n : ℝ))) * (1 / 2)) := by
      simp [pos, genSegNext, genSegInit, LR]
    rw [hp, hc]
    refine ⟨by simp [hlen], ?_⟩
    intro i c h
    obtain ⟨u, hu1, rfl⟩ := jitter_getElem 0 (1 / n) n r hlen i c h
    have := hu u (List.mem_of_getElem? hu1)
    constructor
    · rw [div_le_iff₀ hn']; field_simp; linarith
    · rw [le_div_iff₀ hn']; field_simp; linarith

theorem genSegNext_out (g : GenSeg ℝ) (r : List ℝ) :
    (genSegNext g r).2 = ((genSegNext g r).1.pos.map fun p => g.x1 + (g.x2 - g.x1) * p,
                          (genSegNext g r).1.pos.map fun p => g.y1 + (g.y2 - g.y1) * p) := rfl

/-- **C20, segment sampler** — every draw `k` (however late) of the same generator object, random on or off, any
start/end: `size` points; the i-th is `start + (end − start)·c` with `c` in the i-th of the `size` equal strata
of [0, 1] (the same `c` for both coordinates), so it lies on the segment, one point per stratum. -/
theorem segment_in_stratum (n : ℕ) (hn : 1 ≤ n) (x1 y1 x2 y2 : ℝ) (random : Bool)
    (rands : List (List ℝ)) (hr : random = true → ∀ r ∈ rands, UnitDraw n r) :
    ∀ (k : ℕ) (out : List ℝ × List ℝ), (runSeg (genSegInit LR n x1 y1 x2 y2 random) rands)[k]? = some out →
      out.1.length = n ∧ out.2.length = n ∧ ∀ (i : ℕ), i < n →
        ∃ c : ℝ, ((i : ℝ) / n ≤ c ∧ c ≤ ((i : ℝ) + 1) / n) ∧ (0 ≤ c ∧ c ≤ 1) ∧
          out.1[i]? = some (x1 + (x2 - x1) * c) ∧ out.2[i]? = some (y1 + (y2 - y1) * c) := by
  intro k out h
  rw [runSeg_eq_map _ _ _ ⟨_, _, rfl⟩, List.getElem?_map] at h
  cases hk : rands[k]? with
  | none => simp [hk] at h
  | some r =>
    simp only [hk, Option.map_some, Option.some.injEq] at h
    subst h
    obtain ⟨hlen, hform⟩ := seg_pos_form n hn x1 y1 x2 y2 random r (fun ht => hr ht r (List.mem_of_getElem? hk))
    rw [genSegNext_out]
    refine ⟨by simpa using hlen, by simpa using hlen, ?_⟩
    intro i hi
    have hn' : (0 : ℝ) < n := by positivity
    have hi' : (i : ℝ) + 1 ≤ n := by exact_mod_cast hi
    have hi0 : (0 : ℝ) ≤ i := by positivity
    have hget : ((genSegNext (genSegInit LR n x1 y1 x2 y2 random) r).1.pos)[i]? =
        some (((genSegNext (genSegInit LR n x1 y1 x2 y2 random) r).1.pos)[i]'(by omega)) :=
      List.getElem?_eq_getElem (by omega)
    have hb := hform i _ hget
    refine ⟨_, hb, ⟨le_trans (div_nonneg hi0 hn'.le) hb.1, le_trans hb.2 ((div_le_one hn').mpr hi')⟩, ?_, ?_⟩
    · simp [List.getElem?_map, hget]; rfl
    · simp [List.getElem?_map, hget]; rfl

/-! ### `generator_2dspatial_rectangle` -/

theorem cartesian_length (x y : List ℝ) :
    (cartesianProd x y).1.length = x.length * y.length ∧ (cartesianProd x y).2.length = x.length * y.length := by
  induction x with
  | nil => simp [cartesianProd]
  | cons a xs ih =>
    simp only [cartesianProd, List.flatMap_cons, List.length_append, List.length_map, List.length_cons] at ih ⊢
    constructor <;> [rw [ih.1]; rw [ih.2]] <;> ring

/-- meshgrid order of `torch.cartesian_prod(x, y)`: entry `i·|y| + j` pairs `x[i]` with `y[j]` -/
theorem cartesian_getElem (y : List ℝ) (j : ℕ) (hj : j < y.length) :
    ∀ (x : List ℝ) (i : ℕ), i < x.length →
      (cartesianProd x y).1[i * y.length + j]? = x[i]? ∧ (cartesianProd x y).2[i * y.length + j]? = y[j]? := by
  intro x
  induction x with
  | nil => intro i hi; simp at hi
  | cons a xs ih =>
    intro i hi
    simp only [cartesianProd, List.flatMap_cons] at ih ⊢
    cases i with
    | zero =>
      simp only [Nat.zero_mul, Nat.zero_add]
      constructor
      · rw [List.getElem?_append_left (by simpa using hj)]; simp [hj]
      · rw [List.getElem?_append_left hj]
    | succ i =>
      have hi' : i < xs.length := by simpa using hi
      have e : (i + 1) * y.length + j = y.length + (i * y.length + j) := by ring
      rw [e]
      constructor
      · rw [List.getElem?_append_right (by simp)]
        simpa using (ih i hi').1
      · rw [List.getElem?_append_right (by simp)]
        simpa using (ih i hi').2

/-- both sub-generator frames differ from the initial ones at most in `noise` -/
def InvRect (g0 g : GenRect ℝ) : Prop := Inv1d g0.xGen g.xGen ∧ Inv1d g0.yGen g.yGen

theorem genRectNext_inv (g0 g : GenRect ℝ) (h : InvRect g0 g) (r : List ℝ × List ℝ) :
    InvRect g0 (genRectNext g r).1 ∧ (genRectNext g r).2 = (genRectNext g0 r).2 := by
  have hx := gen1dNext_inv g0.xGen g.xGen h.1 r.1
  have hy := gen1dNext_inv g0.yGen g.yGen h.2 r.2
  exact ⟨⟨hx.1, hy.1⟩, by simp only [genRectNext, hx.2, hy.2]⟩

theorem runRect_eq_map (g0 : GenRect ℝ) : ∀ (rs : List (List ℝ × List ℝ)) (g : GenRect ℝ), InvRect g0 g →
    runRect g rs = rs.map (fun r => (genRectNext g0 r).2) := by
  intro rs
  induction rs with
  | nil => intro g _; rfl
  | cons r rs ih =>
    intro g hg
    have := genRectNext_inv g0 g hg r
    simp only [runRect, List.map_cons, this.2, ih _ this.1]

/-- **C20, rectangle sampler** — every draw `k` of the same generator object, random on or off, `x_min ≤ x_max`,
`y_min ≤ y_max`: `x_size·y_size` points in meshgrid order; the point with index `i·y_size + j` lies in the x-stratum
`i` and the y-stratum `j` (one point per cell of the `x_size × y_size` grid), hence inside the rectangle. -/
theorem rectangle_in_strata (nx ny : ℕ) (hnx : 1 ≤ nx) (hny : 1 ≤ ny) (xMin xMax yMin yMax : ℝ)
    (hx : xMin ≤ xMax) (hy : yMin ≤ yMax) (random : Bool) (rands : List (List ℝ × List ℝ))
    (hr : random = true → ∀ r ∈ rands, UnitDraw nx r.1 ∧ UnitDraw ny r.2) :
    ∀ (k : ℕ) (out : List ℝ × List ℝ),
      (runRect (genRectInit LR nx ny xMin xMax yMin yMax random) rands)[k]? = some out →
      out.1.length = nx * ny ∧ out.2.length = nx * ny ∧ ∀ (i j : ℕ), i < nx → j < ny →
        ∃ p q : ℝ, out.1[i * ny + j]? = some p ∧ out.2[i * ny + j]? = some q ∧
          (xMin + (i : ℝ) * ((xMax - xMin) / nx) ≤ p ∧ p ≤ xMin + ((i : ℝ) + 1) * ((xMax - xMin) / nx)) ∧
          (yMin + (j : ℝ) * ((yMax - yMin) / ny) ≤ q ∧ q ≤ yMin + ((j : ℝ) + 1) * ((yMax - yMin) / ny)) ∧
          (xMin ≤ p ∧ p ≤ xMax) ∧ (yMin ≤ q ∧ q ≤ yMax) := by
  intro k out h
  rw [runRect_eq_map _ _ _ ⟨⟨_, rfl⟩, ⟨_, rfl⟩⟩, List.getElem?_map] at h
  cases hk : rands[k]? with
  | none => simp [hk] at h
  | some r =>
    simp only [hk, Option.map_some, Option.some.injEq] at h
    subst h
    -- the two 1-D draws of this `next()`, seen as one-draw runs of fresh generators
    have hX := sampler1d_in_stratum nx hnx xMin xMax hx random [r.1]
      (fun ht u hu => by simp at hu; subst hu; exact (hr ht r (List.mem_of_getElem? hk)).1) 0 _ rfl
    have hY := sampler1d_in_stratum ny hny yMin yMax hy random [r.2]
      (fun ht u hu => by simp at hu; subst hu; exact (hr ht r (List.mem_of_getElem? hk)).2) 0 _ rfl
    obtain ⟨hxl, hxs⟩ := hX
    obtain ⟨hyl, hys⟩ := hY
    show (cartesianProd _ _).1.length = _ ∧ (cartesianProd _ _).2.length = _ ∧ _
    have hlen := cartesian_length (gen1dNext (gen1dInit LR nx xMin xMax random) r.1).2
      (gen1dNext (gen1dInit LR ny yMin yMax random) r.2).2
    rw [hxl, hyl] at hlen
    refine ⟨hlen.1, hlen.2, ?_⟩
    intro i j hi hj
    have hg := cartesian_getElem (gen1dNext (gen1dInit LR ny yMin yMax random) r.2).2 j (by omega)
      (gen1dNext (gen1dInit LR nx xMin xMax random) r.1).2 i (by omega)
    rw [hyl] at hg
    have hpx := List.getElem?_eq_getElem (l := (gen1dNext (gen1dInit LR nx xMin xMax random) r.1).2) (i := i) (by omega)
    have hpy := List.getElem?_eq_getElem (l := (gen1dNext (gen1dInit LR ny yMin yMax random) r.2).2) (i := j) (by omega)
    refine ⟨_, _, hg.1.trans hpx, hg.2.trans hpy, (hxs i _ hpx).1, (hys j _ hpy).1, (hxs i _ hpx).2, (hys j _ hpy).2⟩

/-! ### non-vacuity of the sampler hypotheses: concrete draws, late index -/

example : UnitDraw 2 [1 / 4, 3 / 4] := by
  refine ⟨rfl, ?_⟩
  intro u hu
  simp at hu
  rcases hu with rfl | rfl <;> norm_num

/-- two draws of one generator object on [0, 1]; the second draw does not feel the first -/
example : run1d (gen1dInit LR 2 0 1 true) [[1 / 4, 3 / 4], [0, 1 / 2]] = [[1 / 8, 7 / 8], [0, 3 / 4]] := by
  simp [run1d, gen1dNext, gen1dInit, linspace, LR, List.range_succ]
  norm_num

example : runSeg (genSegInit LR 2 0 0 4 8 true) [[1 / 4, 3 / 4], [0, 1 / 2]] =
    [([1 / 2, 7 / 2], [1, 7]), ([0, 3], [0, 6])] := by
  simp [runSeg, genSegNext, genSegInit, linspace, LR, List.range_succ]
  norm_num

/-! ### mini-batches -/

theorem batchLoop_flatten (n bs : ℕ) (idx : List ℕ) (hbs : 1 ≤ bs) (hlen : idx.length = n) :
    ∀ (fuel s e : ℕ), (s < n → e = s + bs) → n ≤ s + fuel * bs →
      (batchLoop n bs idx fuel s e).flatten = idx.drop s := by
  intro fuel
  induction fuel with
  | zero =>
    intro s e _ h
    simp only [batchLoop, List.flatten_nil]
    exact (List.drop_eq_nil_of_le (by omega)).symm
  | succ fuel ih =>
    intro s e he h
    unfold batchLoop
    split
    · next hs =>
      have hes := he hs
      subst hes
      have h' : n ≤ s + bs + fuel * bs := by
        have : (fuel + 1) * bs = fuel * bs + bs := by ring
        omega
      simp only [List.flatten_cons]
      by_cases hgt : s + bs > n
      · simp only [hgt, if_true]
        rw [ih (s + bs) (n + bs) (by intro hh; omega) h']
        have hnil : List.drop (s + bs) idx = [] := List.drop_eq_nil_of_le (by omega)
        rw [hnil, List.append_nil]
        exact List.take_of_length_le (by simp [hlen])
      · simp only [hgt, if_false]
        rw [ih (s + bs) (s + bs + bs) (by intro _; rfl) h']
        have : s + bs - s = bs := by omega
        rw [this, ← List.drop_drop, List.take_append_drop]
    · next hs =>
      simp only [List.flatten_nil]
      exact (List.drop_eq_nil_of_le (by omega)).symm

/-- **C20, mini-batch clause.**  For every training-set size `n`, every batch size `bs ≥ 1` (dividing `n` or not)
and every index vector `idx` of length `n`: the mini-batches of one epoch, concatenated in order, are exactly
`idx` — no training point is skipped, repeated or reordered by the slicing. -/
theorem minibatch_partition (n bs : ℕ) (idx : List ℕ) (hbs : 1 ≤ bs) (hlen : idx.length = n) :
    (batches n bs idx).flatten = idx := by
  have h := batchLoop_flatten n bs idx hbs hlen (n + 1) 0 bs (by intro _; simp)
    (by have := Nat.mul_le_mul_left (n + 1) hbs; omega)
  simpa [batches] using h

/-- every mini-batch is non-empty and has at most `bs` points (the last one may be shorter) -/
theorem minibatch_sizes (n bs : ℕ) (idx : List ℕ) (hbs : 1 ≤ bs) (hlen : idx.length = n) :
    ∀ b ∈ batches n bs idx, 1 ≤ b.length ∧ b.length ≤ bs := by
  have key : ∀ (fuel s e : ℕ), (s < n → e = s + bs) →
      ∀ b ∈ batchLoop n bs idx fuel s e, 1 ≤ b.length ∧ b.length ≤ bs := by
    intro fuel
    induction fuel with
    | zero => intro s e _ b hb; simp [batchLoop] at hb
    | succ fuel ih =>
      intro s e he b hb
      unfold batchLoop at hb
      split at hb
      · next hs =>
        have hes := he hs
        subst hes
        rcases List.mem_cons.mp hb with rfl | hb
        · simp only [List.length_take, List.length_drop, hlen]
          split <;> omega
        · refine ih (s + bs) _ ?_ b hb
          intro hh
          have : ¬ (s + bs > n) := by omega
          simp [this]
      · simp at hb
  exact key (n + 1) 0 bs (by intro _; simp)

/-- **each training point exactly once**: with `idx` a permutation of `0..n-1` (what `torch.randperm(n)` and
`torch.arange(n)` return) the mini-batches of an epoch together are a permutation of the training set -/
theorem minibatch_each_point_once (n bs : ℕ) (idx : List ℕ) (hbs : 1 ≤ bs) (hperm : idx.Perm (List.range n)) :
    (batches n bs idx).flatten.Perm (List.range n) ∧ ∀ p, p < n → (batches n bs idx).flatten.count p = 1 := by
  have hlen : idx.length = n := by simpa using hperm.length_eq
  rw [minibatch_partition n bs idx hbs hlen]
  refine ⟨hperm, ?_⟩
  intro p hp
  rw [hperm.count_eq]
  exact List.count_eq_one_of_mem List.nodup_range (List.mem_range.mpr hp)

/-- the `calculate_loss` calls of one `_train_*` call, shuffle on (with the recorded permutation) or off: the
mini-batches partition the training set, then the whole set is evaluated once for the epoch loss -/
theorem train_epoch_once (shuffle : Bool) (n bs : ℕ) (perm : List ℕ) (hbs : 1 ≤ bs)
    (hperm : shuffle = true → perm.Perm (List.range n)) :
    ∃ bsx, trainCalls shuffle n bs perm = bsx ++ [List.range n] ∧ bsx.flatten.Perm (List.range n) ∧
      ∀ b ∈ bsx, 1 ≤ b.length ∧ b.length ≤ bs := by
  have hp : (epochIdx shuffle n perm).Perm (List.range n) := by
    cases shuffle with
    | false => exact List.Perm.refl _
    | true => exact hperm rfl
  refine ⟨_, rfl, (minibatch_each_point_once n bs _ hbs hp).1, ?_⟩
  exact minibatch_sizes n bs _ hbs (by simpa using hp.length_eq)

/-- non-vacuity: 7 training points, batch size 3 (non-divisible), a genuine permutation -/
example : batches 7 3 [3, 1, 0, 6, 5, 2, 4] = [[3, 1, 0], [6, 5, 2], [4]] := by decide
example : [3, 1, 0, 6, 5, 2, 4].Perm (List.range 7) := by decide
example : batches 6 3 (List.range 6) = [[0, 1, 2], [3, 4, 5]] := by decide
example : batches 2 5 [1, 0] = [[1, 0]] := by decide

/-! ### history: one entry per epoch in every series -/

/-- appending the stamp `v` under each key of `ks`: every series `(k, l)` grows by one `v` per occurrence of `k` -/
theorem happend_fold (v : ℕ) : ∀ (ks : List String) (h : History),
    ks.foldl (happend v) h = h.map (fun e => (e.1, e.2 ++ List.replicate (ks.count e.1) v)) := by
  intro ks
  induction ks with
  | nil => intro h; simp
  | cons k ks ih =>
    intro h
    rw [List.foldl_cons, ih, happend, List.map_map]
    apply List.map_congr_left
    intro e _
    by_cases hk : e.1 = k
    · subst hk
      simp [List.replicate_succ]
    · have hk' : ¬ (k = e.1) := fun h => hk h.symm
      simp [hk, hk']

theorem solveLoop_eq (metrics : List String) : ∀ (E : ℕ),
    solveLoop metrics E = (initHistory metrics).map (fun e =>
      (e.1, e.2 ++ (List.range E).flatMap (fun ep => List.replicate ((epochKeys metrics).count e.1) ep))) := by
  intro E
  induction E with
  | zero => simp [solveLoop]
  | succ E ih =>
    rw [solveLoop, happend_fold, ih, List.map_map]
    apply List.map_congr_left
    intro e _
    simp [List.range_succ, List.flatMap_append]

def keys (h : History) : List String := h.map (·.1)

theorem keys_hset (k x : String) (h : History) : x ∈ keys (hset k h) ↔ x ∈ keys h ∨ x = k := by
  unfold hset keys
  split
  · next hany =>
    have hmem : k ∈ h.map (·.1) := by
      obtain ⟨e, he, hek⟩ := List.any_eq_true.mp hany
      exact List.mem_map.mpr ⟨e, he, by simpa using hek⟩
    have hm : (h.map (fun e => if (e.1 == k) = true then (e.1, ([] : List ℕ)) else e)).map (·.1) = h.map (·.1) := by
      rw [List.map_map]
      apply List.map_congr_left
      intro e _
      simp only [Function.comp]
      split <;> rfl
    rw [hm]
    constructor
    · intro hx; exact Or.inl hx
    · rintro (hx | rfl)
      · exact hx
      · exact hmem
  · simp

theorem empty_hset (k : String) (h : History) (he : ∀ e ∈ h, e.2 = []) : ∀ e ∈ hset k h, e.2 = [] := by
  unfold hset
  split
  · intro e hmem
    obtain ⟨e', he', rfl⟩ := List.mem_map.mp hmem
    split
    · rfl
    · exact he e' he'
  · intro e hmem
    rcases List.mem_append.mp hmem with hmem | hmem
    · exact he e hmem
    · simp at hmem; subst hmem; rfl

theorem initHistory_spec (metrics : List String) :
    (∀ e ∈ initHistory metrics, e.2 = []) ∧
    (∀ x, x ∈ keys (initHistory metrics) ↔ x ∈ epochKeys metrics) := by
  have gen : ∀ (ms : List String) (h : History), (∀ e ∈ h, e.2 = []) →
      (∀ e ∈ ms.foldl (fun h m => hset ("valid_" ++ m) (hset ("train_" ++ m) h)) h, e.2 = []) ∧
      (∀ x, x ∈ keys (ms.foldl (fun h m => hset ("valid_" ++ m) (hset ("train_" ++ m) h)) h) ↔
        x ∈ keys h ∨ ∃ m ∈ ms, x = "train_" ++ m ∨ x = "valid_" ++ m) := by
    intro ms
    induction ms with
    | nil => intro h he; exact ⟨he, by simp⟩
    | cons m ms ih =>
      intro h he
      have he' := empty_hset ("valid_" ++ m) _ (empty_hset ("train_" ++ m) h he)
      obtain ⟨i1, i2⟩ := ih _ he'
      refine ⟨by simpa using i1, ?_⟩
      intro x
      rw [List.foldl_cons, i2 x, keys_hset, keys_hset]
      simp only [List.mem_cons, exists_eq_or_imp, or_assoc]
  obtain ⟨g1, g2⟩ := gen metrics [("train_loss", []), ("valid_loss", [])] (by simp)
  refine ⟨g1, ?_⟩
  intro x
  unfold initHistory
  rw [g2 x]
  simp only [keys, epochKeys, List.map_cons, List.map_nil, List.mem_cons, List.mem_append, List.mem_map,
    List.not_mem_nil, or_false]
  constructor
  · rintro ((rfl | rfl) | ⟨m, hm, rfl | rfl⟩)
    · exact Or.inl (Or.inl rfl)
    · exact Or.inr (Or.inl rfl)
    · exact Or.inl (Or.inr ⟨m, hm, rfl⟩)
    · exact Or.inr (Or.inr ⟨m, hm, rfl⟩)
  · rintro ((rfl | ⟨m, hm, rfl⟩) | (rfl | ⟨m, hm, rfl⟩))
    · exact Or.inl (Or.inl rfl)
    · exact Or.inr ⟨m, hm, Or.inl rfl⟩
    · exact Or.inl (Or.inr rfl)
    · exact Or.inr ⟨m, hm, Or.inr rfl⟩

/-- **C20, history clause.**  If the series names are pairwise distinct (Python dict keys `train_loss`,
`valid_loss`, `train_<m>`, `valid_<m>`: true unless a metric is itself called `loss`), then after `E` epochs
every series exists, the history has no other series, and each holds exactly one entry per epoch, in epoch
order (`[0, 1, …, E−1]` as epoch stamps). -/
theorem history_one_per_epoch (metrics : List String) (E : ℕ) (hk : (epochKeys metrics).Nodup) :
    (∀ k ∈ epochKeys metrics, ∃ e ∈ solveLoop metrics E, e.1 = k) ∧
    (∀ e ∈ solveLoop metrics E, e.1 ∈ epochKeys metrics ∧ e.2 = List.range E) := by
  obtain ⟨hempty, hkeys⟩ := initHistory_spec metrics
  rw [solveLoop_eq]
  constructor
  · intro k hkmem
    have : k ∈ keys (initHistory metrics) := (hkeys k).mpr hkmem
    obtain ⟨e, he, rfl⟩ := List.mem_map.mp this
    exact ⟨_, List.mem_map.mpr ⟨e, he, rfl⟩, rfl⟩
  · intro e he
    obtain ⟨e0, he0, rfl⟩ := List.mem_map.mp he
    have hmem : e0.1 ∈ epochKeys metrics := (hkeys e0.1).mp (List.mem_map.mpr ⟨e0, he0, rfl⟩)
    refine ⟨hmem, ?_⟩
    simp only [hempty e0 he0, List.nil_append, List.count_eq_one_of_mem hk hmem, List.replicate_one]
    induction E with
    | zero => simp
    | succ E ih => simp [List.range_succ, List.flatMap_append]

/-- non-vacuity: two ordinary metrics give six distinct series -/
example : (epochKeys ["mse", "max"]).Nodup := by decide
example : solveLoop ["mse"] 3 =
    [("train_loss", [0, 1, 2]), ("valid_loss", [0, 1, 2]), ("train_mse", [0, 1, 2]), ("valid_mse", [0, 1, 2])] := by
  decide

/-- why the hypothesis is there: a metric called `loss` shares the key `train_loss`/`valid_loss` with the loss
series and the unchanged code then appends twice per epoch (observed on the real code as well) -/
theorem history_metric_named_loss :
    solveLoop ["loss"] 3 = [("train_loss", [0, 0, 1, 1, 2, 2]), ("valid_loss", [0, 0, 1, 1, 2, 2])] := by
  decide

end NdeVerif.C20
