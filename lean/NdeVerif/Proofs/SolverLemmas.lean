/-
  Helper lemmas about `NdeVerif.Solver` shared by the property files C04, C05, C15 (kept apart from the property
  theorems): the exact effect of every building block and of one whole epoch on `core s` (= the state without
  the ghost event log).
-/
import NdeVerif.Model.Solver

namespace NdeVerif.Solver

theorem iterate_succ_right {α : Type} (f : α → α) : ∀ n x, iterate f (n+1) x = f (iterate f n x) := by
  intro n
  induction n with
  | zero => intro x; rfl
  | succ n ih => intro x; rw [iterate, ih (f x)]; rfl

/-- everything except the ghost log -/
structure Core where
  θ : Int
  optKind : OptKind
  lossId : Nat
  nTrain : Nat
  nValid : Nat
  trainLoss : List Val
  validLoss : List Val
  trainMetric : List (List Val)
  validMetric : List (List Val)
  lowest : Option Val
  best : Option Int
  localEpoch : Nat
  maxLocal : Nat
  stop : Bool
  trainDraws : Nat
  validDraws : Nat
  steps : Nat
  cand : List Int

def core (s : State) : Core :=
  ⟨s.θ, s.optKind, s.lossId, s.nTrain, s.nValid, s.trainLoss, s.validLoss, s.trainMetric, s.validMetric, s.lowest,
   s.best, s.localEpoch, s.maxLocal, s.stop, s.trainDraws, s.validDraws, s.steps, s.cand⟩

/-- the `(lowest, best)` update performed by `_update_best` when the current loss is `v` and the nets are `θ` -/
def bestStep (lowest : Option Val) (best : Option Int) (v : Val) (θ : Int) : Option Val × Option Int :=
  match lowest with
  | none => (some v, some θ)
  | some l => if v < l then (some v, some θ) else (some l, best)

theorem core_updateBest (s : State) (v : Val) :
    core (updateBest s v) =
      { core s with lowest := (bestStep s.lowest s.best v s.θ).1, best := (bestStep s.lowest s.best v s.θ).2,
                    cand := s.cand ++ [s.θ] } := by
  simp only [updateBest, bestStep]
  cases h : s.lowest with
  | none => simp [core, h]
  | some l =>
    by_cases hv : v < l
    · simp [core, h, hv]
    · simp [core, h, hv]

theorem core_logZeroGrad (s : State) : core (logZeroGrad s) = core s := rfl
theorem core_recordTrain (s : State) (v : Val) :
    core (recordTrain s v) = { core s with trainLoss := s.trainLoss ++ [v] } := rfl
theorem core_recordValid (s : State) (v : Val) :
    core (recordValid s v) = { core s with validLoss := s.validLoss ++ [v] } := rfl
theorem core_plainOptStep (c : Cfg) (s : State) :
    core (plainOptStep c s) = { core s with θ := s.θ + c.plainStep s.steps, steps := s.steps + 1 } := rfl
theorem core_recordTrainMetrics (s : State) (ms : List Val) :
    core (recordTrainMetrics s ms) = { core s with trainMetric := pushMetrics s.trainMetric ms } := rfl
theorem core_recordValidMetrics (s : State) (ms : List Val) :
    core (recordValidMetrics s ms) = { core s with validMetric := pushMetrics s.validMetric ms } := rfl

/-- a state is determined up to its log by its core: read every field back -/
theorem core_fields (s : State) (k : Core) (h : core s = k) :
    s.θ = k.θ ∧ s.optKind = k.optKind ∧ s.lossId = k.lossId ∧ s.nTrain = k.nTrain ∧ s.nValid = k.nValid ∧
    s.trainLoss = k.trainLoss ∧ s.validLoss = k.validLoss ∧ s.trainMetric = k.trainMetric ∧
    s.validMetric = k.validMetric ∧ s.lowest = k.lowest ∧ s.best = k.best ∧ s.localEpoch = k.localEpoch ∧
    s.maxLocal = k.maxLocal ∧ s.stop = k.stop ∧ s.trainDraws = k.trainDraws ∧ s.validDraws = k.validDraws ∧
    s.steps = k.steps ∧ s.cand = k.cand := by
  subst h; simp [core]

/-- sum of `g (start + b)` for `b < n` -/
def sumRange (g : Nat → Val) (start : Nat) : Nat → Val
  | 0 => 0
  | n+1 => sumRange g start n + g (start + n)

theorem zipWith_map_map {α β : Type} (f : β → β → β) (g h : α → β) (l : List α) :
    List.zipWith f (l.map g) (l.map h) = l.map (fun x => f (g x) (h x)) := by
  induction l with
  | nil => rfl
  | cons x xs ih => simp [ih]

/-! ### plain training batches and validation batches: only the draw counter moves -/

theorem iterate_trainBatchPlain (c : Cfg) (n : Nat) (s : State) :
    let p := iterate (trainBatchPlain c) n (s, acc0 c)
    core p.1 = { core s with trainDraws := s.trainDraws + n } ∧
    p.2.epochLoss = sumRange (fun i => c.loss s.lossId s.θ true i) s.trainDraws n ∧
    p.2.metricSums = (metricIds c).map (fun m => sumRange (fun i => c.metric m s.θ true i) s.trainDraws n) := by
  induction n with
  | zero => simp [iterate, sumRange, acc0, core]
  | succ n ih =>
    rw [iterate_succ_right]
    obtain ⟨h1, h2, h3⟩ := ih
    generalize iterate (trainBatchPlain c) n (s, acc0 c) = p at *
    obtain ⟨e1, e2, e3, e4, e5, e6, e7, e8, e9, e10, e11, e12, e13, e14, e15, e16, e17, e18⟩ := core_fields _ _ h1
    simp only [core] at e1 e2 e3 e4 e5 e6 e7 e8 e9 e10 e11 e12 e13 e14 e15 e16 e17 e18
    refine ⟨?_, ?_, ?_⟩
    · simp only [trainBatchPlain, core, e1, e2, e3, e4, e5, e6, e7, e8, e9, e10, e11, e12, e13, e14, e15, e16, e17, e18,
        Core.mk.injEq, true_and, and_true]
      omega
    · simp only [trainBatchPlain, sumRange, h2, e1, e3, e15]
    · simp only [trainBatchPlain, sumRange, h3, e1, e15, zipWith_map_map]

theorem iterate_validBatch (c : Cfg) (n : Nat) (s : State) :
    let p := iterate (validBatch c) n (s, acc0 c)
    core p.1 = { core s with validDraws := s.validDraws + n } ∧
    p.2.epochLoss = sumRange (fun i => c.loss s.lossId s.θ false i) s.validDraws n ∧
    p.2.metricSums = (metricIds c).map (fun m => sumRange (fun i => c.metric m s.θ false i) s.validDraws n) := by
  induction n with
  | zero => simp [iterate, sumRange, acc0, core]
  | succ n ih =>
    rw [iterate_succ_right]
    obtain ⟨h1, h2, h3⟩ := ih
    generalize iterate (validBatch c) n (s, acc0 c) = p at *
    obtain ⟨e1, e2, e3, e4, e5, e6, e7, e8, e9, e10, e11, e12, e13, e14, e15, e16, e17, e18⟩ := core_fields _ _ h1
    simp only [core] at e1 e2 e3 e4 e5 e6 e7 e8 e9 e10 e11 e12 e13 e14 e15 e16 e17 e18
    refine ⟨?_, ?_, ?_⟩
    · simp only [validBatch, core, e1, e2, e3, e4, e5, e6, e7, e8, e9, e10, e11, e12, e13, e14, e15, e16, e17, e18,
        Core.mk.injEq, true_and, and_true]
      omega
    · simp only [validBatch, sumRange, h2, e1, e3, e16]
    · simp only [validBatch, sumRange, h3, e1, e16, zipWith_map_map]

/-! ### closure-based batches -/

theorem closureEvals_fst (c : Cfg) (lossId idx : Nat) :
    ∀ (shifts : List Int) (θ : Int) (l : Val) (ms : List Val) (log : List Event),
      (closureEvals c lossId idx shifts θ l ms log).1 = θ + shifts.sum := by
  intro shifts
  induction shifts with
  | nil => intro θ l ms log; simp [closureEvals]
  | cons sh rest ih =>
    intro θ l ms log
    simp only [closureEvals, ih, List.sum_cons]
    omega

/-- parameters after `n` further closure steps starting at oracle index `k0` -/
def closureθ (c : Cfg) (k0 : Nat) (θ : Int) : Nat → Int
  | 0 => θ
  | n+1 => closureθ c k0 θ n + (c.closureShifts (k0 + n)).sum

theorem iterate_trainBatchClosure (c : Cfg) (n : Nat) (s : State) (a : Acc) :
    let p := iterate (trainBatchClosure c) n (s, a)
    core p.1 = { core s with trainDraws := s.trainDraws + n, steps := s.steps + n, θ := closureθ c s.steps s.θ n } := by
  induction n with
  | zero => simp [iterate, core, closureθ]
  | succ n ih =>
    rw [iterate_succ_right]
    generalize iterate (trainBatchClosure c) n (s, a) = p at *
    obtain ⟨e1, e2, e3, e4, e5, e6, e7, e8, e9, e10, e11, e12, e13, e14, e15, e16, e17, e18⟩ := core_fields _ _ ih
    simp only [core] at e1 e2 e3 e4 e5 e6 e7 e8 e9 e10 e11 e12 e13 e14 e15 e16 e17 e18
    simp only [trainBatchClosure, core, closureEvals_fst, closureθ, e1, e2, e3, e4, e5, e6, e7, e8, e9, e10, e11, e12,
      e13, e14, e15, e16, e17, e18, Core.mk.injEq, true_and, and_true]
    omega

/-! ### whole epochs -/

/-- mean over the `n` batches drawn in this epoch of the per-batch loss at parameters `θ` -/
def meanLoss (c : Cfg) (lossId : Nat) (θ : Int) (train : Bool) (start n : Nat) : Val :=
  sumRange (fun i => c.loss lossId θ train i) start n / (n : Int)

def meanMetrics (c : Cfg) (θ : Int) (train : Bool) (start n : Nat) : List Val :=
  (metricIds c).map (fun m => sumRange (fun i => c.metric m θ train i) start n / (n : Int))

theorem validEpoch_skip (c : Cfg) (s : State) (h : s.nValid = 0) : validEpoch c s = s := by
  simp [validEpoch, h]

theorem trainEpoch_skip (c : Cfg) (s : State) (h : s.nTrain = 0) : trainEpoch c s = s := by
  simp [trainEpoch, h]

theorem core_validEpoch (c : Cfg) (s : State) (h : s.nValid ≠ 0) :
    core (validEpoch c s) =
      { core s with validLoss := s.validLoss ++ [meanLoss c s.lossId s.θ false s.validDraws s.nValid],
                    lowest := (bestStep s.lowest s.best (meanLoss c s.lossId s.θ false s.validDraws s.nValid) s.θ).1,
                    best := (bestStep s.lowest s.best (meanLoss c s.lossId s.θ false s.validDraws s.nValid) s.θ).2,
                    cand := s.cand ++ [s.θ],
                    validDraws := s.validDraws + s.nValid,
                    validMetric := pushMetrics s.validMetric (meanMetrics c s.θ false s.validDraws s.nValid) } := by
  obtain ⟨h1, h2, h3⟩ := iterate_validBatch c s.nValid s
  simp only [validEpoch, h, if_false]
  generalize iterate (validBatch c) s.nValid (s, acc0 c) = p at *
  obtain ⟨e1, e2, e3, e4, e5, e6, e7, e8, e9, e10, e11, e12, e13, e14, e15, e16, e17, e18⟩ := core_fields _ _ h1
  simp only [core] at e1 e2 e3 e4 e5 e6 e7 e8 e9 e10 e11 e12 e13 e14 e15 e16 e17 e18
  have hu := core_fields _ _ (core_updateBest (recordValid p.1 (p.2.epochLoss / (s.nValid : Int))) (p.2.epochLoss / (s.nValid : Int)))
  rw [core_recordValidMetrics, core_updateBest, core_recordValid, hu.2.2.2.2.2.2.2.2.1]
  simp only [recordValid, core, e1, e2, e3, e4, e5, e6, e7, e8, e9, e10, e11, e12, e13, e14, e15, e16, e17, e18, h2, h3,
    meanLoss, meanMetrics, divMetrics, List.map_map, Function.comp_def]


/-- `(lowest, best, cand)` after the call site `if n_batches['valid'] == 0: _update_best('train')` -/
def trainBest (s : State) (v : Val) (θ : Int) : Option Val × Option Int × List Int :=
  if s.nValid = 0 then ((bestStep s.lowest s.best v θ).1, (bestStep s.lowest s.best v θ).2, s.cand ++ [θ])
  else (s.lowest, s.best, s.cand)

theorem core_maybeUpdateBestTrain (s : State) (v : Val) :
    core (maybeUpdateBestTrain s v) =
      { core s with lowest := (trainBest s v s.θ).1, best := (trainBest s v s.θ).2.1, cand := (trainBest s v s.θ).2.2 } := by
  by_cases h : s.nValid = 0
  · simp only [maybeUpdateBestTrain, h, if_true, core_updateBest, trainBest]
  · simp only [maybeUpdateBestTrain, h, if_false, trainBest]
    rfl

theorem core_trainEpoch_plain (c : Cfg) (s : State) (h : s.nTrain ≠ 0) (hk : s.optKind = .plain) :
    core (trainEpoch c s) =
      { core s with trainLoss := s.trainLoss ++ [meanLoss c s.lossId s.θ true s.trainDraws s.nTrain],
                    lowest := (trainBest s (meanLoss c s.lossId s.θ true s.trainDraws s.nTrain) s.θ).1,
                    best := (trainBest s (meanLoss c s.lossId s.θ true s.trainDraws s.nTrain) s.θ).2.1,
                    cand := (trainBest s (meanLoss c s.lossId s.θ true s.trainDraws s.nTrain) s.θ).2.2,
                    θ := s.θ + c.plainStep s.steps, steps := s.steps + 1,
                    trainDraws := s.trainDraws + s.nTrain,
                    trainMetric := pushMetrics s.trainMetric (meanMetrics c s.θ true s.trainDraws s.nTrain) } := by
  obtain ⟨h1, h2, h3⟩ := iterate_trainBatchPlain c s.nTrain (logZeroGrad s)
  simp only [trainEpoch, h, hk, if_false]
  generalize iterate (trainBatchPlain c) s.nTrain (logZeroGrad s, acc0 c) = p at *
  obtain ⟨e1, e2, e3, e4, e5, e6, e7, e8, e9, e10, e11, e12, e13, e14, e15, e16, e17, e18⟩ := core_fields _ _ h1
  simp only [core, logZeroGrad] at e1 e2 e3 e4 e5 e6 e7 e8 e9 e10 e11 e12 e13 e14 e15 e16 e17 e18 h2 h3
  generalize hv : p.2.epochLoss / (s.nTrain : Int) = v at *
  have hv' : meanLoss c s.lossId s.θ true s.trainDraws s.nTrain = v := by simp [meanLoss, ← hv, h2]
  obtain ⟨m1, m2, m3, m4, m5, m6, m7, m8, m9, m10, m11, m12, m13, m14, m15, m16, m17, m18⟩ :=
    core_fields _ _ (core_maybeUpdateBestTrain (recordTrain p.1 v) v)
  rw [hv']
  simp only [core, recordTrainMetrics, plainOptStep, m1, m2, m3, m4, m5, m6, m7, m8, m9, m10, m11, m12, m13, m14, m15,
    m16, m17, m18]
  simp only [recordTrain, trainBest, core, e1, e2, e3, e4, e5, e6, e7, e8, e9, e10, e11, e12, e13, e14, e15, e16, e17,
    e18, h3, meanMetrics, divMetrics, List.map_map, Function.comp_def]

/-- what a closure-based training epoch does to the bookkeeping; the recorded value and the metric values are left
abstract here (they are sums of last-evaluation values at moving parameters) -/
theorem core_trainEpoch_closure (c : Cfg) (s : State) (h : s.nTrain ≠ 0) (hk : s.optKind = .closure) :
    ∃ (v : Val) (ms : List Val),
    core (trainEpoch c s) =
      { core s with trainLoss := s.trainLoss ++ [v],
                    lowest := (trainBest s v (closureθ c s.steps s.θ s.nTrain)).1,
                    best := (trainBest s v (closureθ c s.steps s.θ s.nTrain)).2.1,
                    cand := (trainBest s v (closureθ c s.steps s.θ s.nTrain)).2.2,
                    θ := closureθ c s.steps s.θ s.nTrain, steps := s.steps + s.nTrain,
                    trainDraws := s.trainDraws + s.nTrain,
                    trainMetric := pushMetrics s.trainMetric ms } := by
  have h1 := iterate_trainBatchClosure c s.nTrain s (acc0 c)
  simp only [trainEpoch, h, hk, if_false]
  generalize iterate (trainBatchClosure c) s.nTrain (s, acc0 c) = p at *
  obtain ⟨e1, e2, e3, e4, e5, e6, e7, e8, e9, e10, e11, e12, e13, e14, e15, e16, e17, e18⟩ := core_fields _ _ h1
  simp only [core] at e1 e2 e3 e4 e5 e6 e7 e8 e9 e10 e11 e12 e13 e14 e15 e16 e17 e18
  refine ⟨p.2.epochLoss / (s.nTrain : Int), divMetrics p.2.metricSums s.nTrain, ?_⟩
  generalize p.2.epochLoss / (s.nTrain : Int) = v
  obtain ⟨m1, m2, m3, m4, m5, m6, m7, m8, m9, m10, m11, m12, m13, m14, m15, m16, m17, m18⟩ :=
    core_fields _ _ (core_maybeUpdateBestTrain (recordTrain p.1 v) v)
  simp only [core, recordTrainMetrics, m1, m2, m3, m4, m5, m6, m7, m8, m9, m10, m11, m12, m13, m14, m15,
    m16, m17, m18]
  simp only [recordTrain, trainBest, core, e1, e2, e3, e4, e5, e6, e7, e8, e9, e10, e11, e12, e13, e14, e15, e16, e17, e18]

/-! ### callbacks -/

theorem core_applyAction_frame (s : State) (a : Action) :
    let s' := applyAction s a
    s'.θ = s.θ ∧ s'.nValid = s.nValid ∧ s'.trainLoss = s.trainLoss ∧ s'.validLoss = s.validLoss ∧
    s'.trainMetric = s.trainMetric ∧ s'.validMetric = s.validMetric ∧ s'.lowest = s.lowest ∧ s'.best = s.best ∧
    s'.localEpoch = s.localEpoch ∧ s'.maxLocal = s.maxLocal ∧ s'.trainDraws = s.trainDraws ∧
    s'.validDraws = s.validDraws ∧ s'.steps = s.steps ∧ s'.cand = s.cand := by
  cases a <;> simp [applyAction]

theorem runCallbacks_frame (sched : Nat → Nat → List Action) (call : Nat) (s : State) :
    let s' := runCallbacks sched call s
    s'.θ = s.θ ∧ s'.nValid = s.nValid ∧ s'.trainLoss = s.trainLoss ∧ s'.validLoss = s.validLoss ∧
    s'.trainMetric = s.trainMetric ∧ s'.validMetric = s.validMetric ∧ s'.lowest = s.lowest ∧ s'.best = s.best ∧
    s'.localEpoch = s.localEpoch ∧ s'.maxLocal = s.maxLocal ∧ s'.trainDraws = s.trainDraws ∧
    s'.validDraws = s.validDraws ∧ s'.steps = s.steps ∧ s'.cand = s.cand := by
  simp only [runCallbacks]
  generalize sched call s.localEpoch = acts
  induction acts generalizing s with
  | nil => simp
  | cons a rest ih =>
    have h1 := core_applyAction_frame s a
    have h2 := ih (applyAction s a)
    simp only [List.foldl_cons] at h2 ⊢
    obtain ⟨a1, a2, a3, a4, a5, a6, a7, a8, a9, a10, a11, a12, a13, a14⟩ := h1
    obtain ⟨b1, b2, b3, b4, b5, b6, b7, b8, b9, b10, b11, b12, b13, b14⟩ := h2
    exact ⟨b1.trans a1, b2.trans a2, b3.trans a3, b4.trans a4, b5.trans a5, b6.trans a6, b7.trans a7, b8.trans a8,
      b9.trans a9, b10.trans a10, b11.trans a11, b12.trans a12, b13.trans a13, b14.trans a14⟩

end NdeVerif.Solver
