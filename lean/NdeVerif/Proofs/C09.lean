/-
  C09 (hand-written part): the coordinate-conversion helpers are mutual inverses and follow the documented ranges.
  `torch.atan2 y x` is `Complex.arg ⟨x, y⟩` (`atan2R`).  The traced helpers (`GenC09.s2c_*`, `c2s_*`, `cyl2c_*`,
  `c2cyl_*`, regenerated from /repo on every run) are tied to the reference functions below by the `*_traced` theorems.
-/
import NdeVerif.Gen.C09
import Mathlib.Analysis.SpecialFunctions.Complex.Arg
import Mathlib.Analysis.SpecialFunctions.Sqrt
import Mathlib.Analysis.SpecialFunctions.Pow.Real

namespace NdeVerif.C09
open NdeVerif Real

/-! ### reference functions -/
noncomputable def s2c (r th ph : ℝ) : ℝ × ℝ × ℝ := (r * sin th * cos ph, r * sin th * sin ph, r * cos th)
noncomputable def c2s (x y z : ℝ) : ℝ × ℝ × ℝ :=
  (sqrt (x ^ 2 + y ^ 2 + z ^ 2), atan2R (sqrt (x ^ 2 + y ^ 2)) z, atan2R y x)
noncomputable def cyl2c (rho ph z : ℝ) : ℝ × ℝ × ℝ := (rho * cos ph, rho * sin ph, z)
noncomputable def c2cyl (x y z : ℝ) : ℝ × ℝ × ℝ := (sqrt (x ^ 2 + y ^ 2), atan2R y x, z)

/-! ### the traced code is the reference -/
theorem s2c_traced (I : Interp) (r th ph : ℝ) :
    (Ex.eval I (env [r, th, ph]) GenC09.s2c_0, Ex.eval I (env [r, th, ph]) GenC09.s2c_1,
      Ex.eval I (env [r, th, ph]) GenC09.s2c_2) = s2c r th ph := by
  simp [GenC09.s2c_0, GenC09.s2c_1, GenC09.s2c_2, Ex.eval, UF.ev, s2c, env]

theorem c2s_traced (I : Interp) (x y z : ℝ) :
    (Ex.eval I (env [x, y, z]) GenC09.c2s_0, Ex.eval I (env [x, y, z]) GenC09.c2s_1,
      Ex.eval I (env [x, y, z]) GenC09.c2s_2) = c2s x y z := by
  simp [GenC09.c2s_0, GenC09.c2s_1, GenC09.c2s_2, Ex.eval, UF.ev, c2s, env]

theorem cyl2c_traced (I : Interp) (rho ph z : ℝ) :
    (Ex.eval I (env [rho, ph, z]) GenC09.cyl2c_0, Ex.eval I (env [rho, ph, z]) GenC09.cyl2c_1,
      Ex.eval I (env [rho, ph, z]) GenC09.cyl2c_2) = cyl2c rho ph z := by
  simp [GenC09.cyl2c_0, GenC09.cyl2c_1, GenC09.cyl2c_2, Ex.eval, UF.ev, cyl2c, env]

theorem c2cyl_traced (I : Interp) (x y z : ℝ) :
    (Ex.eval I (env [x, y, z]) GenC09.c2cyl_0, Ex.eval I (env [x, y, z]) GenC09.c2cyl_1,
      Ex.eval I (env [x, y, z]) GenC09.c2cyl_2) = c2cyl x y z := by
  simp [GenC09.c2cyl_0, GenC09.c2cyl_1, GenC09.c2cyl_2, Ex.eval, UF.ev, c2cyl, env]

/-! ### polar facts about `atan2R` -/

theorem norm_mk (a b : ℝ) : ‖(⟨a, b⟩ : ℂ)‖ = sqrt (a ^ 2 + b ^ 2) := by
  rw [Complex.norm_def, Complex.normSq_mk]; congr 1; ring

/-- `ρ cos(atan2 y x) = x` and `ρ sin(atan2 y x) = y` with `ρ = √(x²+y²)`, for every `(x, y)` (also the origin) -/
theorem polar_cos (x y : ℝ) : sqrt (x ^ 2 + y ^ 2) * cos (atan2R y x) = x := by
  by_cases h : (⟨x, y⟩ : ℂ) = 0
  · have hx : x = 0 := by simpa using congrArg Complex.re h
    have hy : y = 0 := by simpa using congrArg Complex.im h
    subst hx hy; simp
  · rw [atan2R, Complex.cos_arg h, norm_mk]
    have hn : sqrt (x ^ 2 + y ^ 2) ≠ 0 := by rw [← norm_mk]; exact norm_ne_zero_iff.mpr h
    field_simp

theorem polar_sin (x y : ℝ) : sqrt (x ^ 2 + y ^ 2) * sin (atan2R y x) = y := by
  by_cases h : (⟨x, y⟩ : ℂ) = 0
  · have hx : x = 0 := by simpa using congrArg Complex.re h
    have hy : y = 0 := by simpa using congrArg Complex.im h
    subst hx hy; simp
  · rw [atan2R, Complex.sin_arg, norm_mk]
    have hn : sqrt (x ^ 2 + y ^ 2) ≠ 0 := by rw [← norm_mk]; exact norm_ne_zero_iff.mpr h
    field_simp

/-- `atan2 (ρ sin φ) (ρ cos φ) = φ` for `ρ > 0`, `φ ∈ (-π, π]` -/
theorem atan2_polar (rho ph : ℝ) (hr : 0 < rho) (hp : ph ∈ Set.Ioc (-π) π) :
    atan2R (rho * sin ph) (rho * cos ph) = ph := by
  have : (⟨rho * cos ph, rho * sin ph⟩ : ℂ) = (rho : ℂ) * (Complex.cos ph + Complex.sin ph * Complex.I) := by
    apply Complex.ext <;> simp [Complex.cos_ofReal_re, Complex.sin_ofReal_re, Complex.cos_ofReal_im, Complex.sin_ofReal_im]
  rw [atan2R, this]
  exact Complex.arg_mul_cos_add_sin_mul_I hr hp

/-! ### cylindrical -/

/-- converting Cartesian → cylindrical → Cartesian is the identity everywhere -/
theorem cyl2c_c2cyl (x y z : ℝ) :
    cyl2c (c2cyl x y z).1 (c2cyl x y z).2.1 (c2cyl x y z).2.2 = (x, y, z) := by
  simp only [cyl2c, c2cyl, polar_cos, polar_sin]

/-- cylindrical → Cartesian → cylindrical is the identity for `ρ > 0` and `φ` in the principal range `(-π, π]`
(angles modulo 2π otherwise) -/
theorem c2cyl_cyl2c (rho ph z : ℝ) (hr : 0 < rho) (hp : ph ∈ Set.Ioc (-π) π) :
    c2cyl (cyl2c rho ph z).1 (cyl2c rho ph z).2.1 (cyl2c rho ph z).2.2 = (rho, ph, z) := by
  simp only [cyl2c, c2cyl]
  have h1 : sqrt ((rho * cos ph) ^ 2 + (rho * sin ph) ^ 2) = rho := by
    have : (rho * cos ph) ^ 2 + (rho * sin ph) ^ 2 = rho ^ 2 := by
      have := sin_sq_add_cos_sq ph; nlinarith [this]
    rw [this, sqrt_sq hr.le]
  rw [h1, atan2_polar rho ph hr hp]

/-- documented ranges: `ρ ≥ 0`, `φ ∈ (-π, π]` -/
theorem c2cyl_ranges (x y z : ℝ) : 0 ≤ (c2cyl x y z).1 ∧ (c2cyl x y z).2.1 ∈ Set.Ioc (-π) π := by
  refine ⟨sqrt_nonneg _, ?_⟩
  exact Complex.arg_mem_Ioc _

/-! ### spherical -/

theorem sq_sum_sqrt (x y z : ℝ) : sqrt (sqrt (x ^ 2 + y ^ 2) ^ 2 + z ^ 2) = sqrt (x ^ 2 + y ^ 2 + z ^ 2) := by
  rw [sq_sqrt (by positivity)]

/-- `r sin θ = ρ` and `r cos θ = z` for `θ = atan2 ρ z`, `r = √(ρ² + z²)` -/
theorem sph_sin (x y z : ℝ) :
    sqrt (x ^ 2 + y ^ 2 + z ^ 2) * sin (atan2R (sqrt (x ^ 2 + y ^ 2)) z) = sqrt (x ^ 2 + y ^ 2) := by
  have := polar_sin z (sqrt (x ^ 2 + y ^ 2))
  rw [show z ^ 2 + sqrt (x ^ 2 + y ^ 2) ^ 2 = x ^ 2 + y ^ 2 + z ^ 2 by rw [sq_sqrt (by positivity)]; ring] at this
  exact this

theorem sph_cos (x y z : ℝ) :
    sqrt (x ^ 2 + y ^ 2 + z ^ 2) * cos (atan2R (sqrt (x ^ 2 + y ^ 2)) z) = z := by
  have := polar_cos z (sqrt (x ^ 2 + y ^ 2))
  rw [show z ^ 2 + sqrt (x ^ 2 + y ^ 2) ^ 2 = x ^ 2 + y ^ 2 + z ^ 2 by rw [sq_sqrt (by positivity)]; ring] at this
  exact this

/-- converting Cartesian → spherical → Cartesian is the identity everywhere (also on the axis and at the origin,
where the angles take their default values) -/
theorem s2c_c2s (x y z : ℝ) :
    s2c (c2s x y z).1 (c2s x y z).2.1 (c2s x y z).2.2 = (x, y, z) := by
  simp only [s2c, c2s, sph_sin, sph_cos, polar_cos, polar_sin]

/-- spherical → Cartesian → spherical is the identity for `r > 0`, `θ ∈ (0, π)`, `φ ∈ (-π, π]` -/
theorem c2s_s2c (r th ph : ℝ) (hr : 0 < r) (ht : th ∈ Set.Ioo 0 π) (hp : ph ∈ Set.Ioc (-π) π) :
    c2s (s2c r th ph).1 (s2c r th ph).2.1 (s2c r th ph).2.2 = (r, th, ph) := by
  have hs : 0 < sin th := sin_pos_of_pos_of_lt_pi ht.1 ht.2
  have hrho : 0 < r * sin th := mul_pos hr hs
  simp only [s2c, c2s]
  have h1 : (r * sin th * cos ph) ^ 2 + (r * sin th * sin ph) ^ 2 = (r * sin th) ^ 2 := by
    have := sin_sq_add_cos_sq ph; nlinarith [this]
  have h2 : (r * sin th) ^ 2 + (r * cos th) ^ 2 = r ^ 2 := by
    have := sin_sq_add_cos_sq th; nlinarith [this]
  rw [h1, sqrt_sq hrho.le, h2, sqrt_sq hr.le]
  have ht' : th ∈ Set.Ioc (-π) π := ⟨by linarith [ht.1, pi_pos], ht.2.le⟩
  rw [atan2_polar r th hr ht']
  rw [show r * sin th * cos ph = (r * sin th) * cos ph by ring, show r * sin th * sin ph = (r * sin th) * sin ph by ring,
    atan2_polar (r * sin th) ph hrho hp]

/-- documented ranges: `r ≥ 0`, `θ ∈ [0, π]`, `φ ∈ (-π, π]` -/
theorem c2s_ranges (x y z : ℝ) :
    0 ≤ (c2s x y z).1 ∧ (c2s x y z).2.1 ∈ Set.Icc 0 π ∧ (c2s x y z).2.2 ∈ Set.Ioc (-π) π := by
  refine ⟨sqrt_nonneg _, ⟨?_, Complex.arg_le_pi _⟩, Complex.arg_mem_Ioc _⟩
  simp only [c2s, atan2R]
  rw [Complex.arg_nonneg_iff]
  exact sqrt_nonneg _

example : (2:ℝ) ∈ Set.Ioo 0 π ∧ (-1:ℝ) ∈ Set.Ioc (-π) π := by
  refine ⟨⟨by norm_num, by linarith [pi_gt_three]⟩, ⟨by linarith [pi_gt_three], by linarith [pi_gt_three]⟩⟩

end NdeVerif.C09
