/-
  C18 — saving never alters a solver; loading restores an equal, resumable one.
-/
import NdeVerif.Model.Persist
import NdeVerif.Proofs.C05

namespace NdeVerif.C18
open NdeVerif.Solver NdeVerif.Persist NdeVerif.C05

/-- `save` leaves conditions, networks, best networks, histories, optimiser, loss function and every counter of the
solver exactly as they were, whether or not serialisation succeeds; only the training generator may have been asked
for sample points -/
theorem save_preserves (pickles : Bool) (k : Nat) (s : State) :
    (save pickles k s).1 = { s with trainDraws := s.trainDraws + k } := rfl

theorem save_preserves_obs (pickles : Bool) (k : Nat) (s : State) :
    let s' := (save pickles k s).1
    s'.θ = s.θ ∧ s'.best = s.best ∧ s'.lowest = s.lowest ∧ s'.trainLoss = s.trainLoss ∧ s'.validLoss = s.validLoss ∧
    s'.trainMetric = s.trainMetric ∧ s'.validMetric = s.validMetric ∧ s'.optKind = s.optKind ∧ s'.lossId = s.lossId ∧
    s'.nTrain = s.nTrain ∧ s'.nValid = s.nValid ∧ s'.steps = s.steps ∧ s'.localEpoch = s.localEpoch :=
  ⟨rfl, rfl, rfl, rfl, rfl, rfl, rfl, rfl, rfl, rfl, rfl, rfl, rfl⟩

theorem save_writes_iff (pickles : Bool) (k : Nat) (s : State) : (save pickles k s).2.isSome = pickles := by
  cases pickles <;> rfl

/-- loading what was saved restores the networks, the best networks, both loss histories (hence the global epoch),
the optimiser kind and the loss function -/
theorem load_save_obs (s : State) (nT nV nM : Nat) :
    let l := load (file s) nT nV nM
    l.θ = s.θ ∧ l.best = s.best ∧ l.trainLoss = s.trainLoss ∧ l.validLoss = s.validLoss ∧
    globalEpoch l = globalEpoch s ∧ l.optKind = s.optKind ∧ l.lossId = s.lossId := by
  simp [load, file, init, globalEpoch]

/-- with the C05 invariant (in particular `best = none ↔ lowest = none`) the lowest loss is restored as well -/
theorem load_restores_lowest (s : State) (nT nV nM : Nat) (h : BestInv s) :
    (load (file s) nT nV nM).lowest = s.lowest := by
  show (if s.best.isSome then s.lowest else none) = s.lowest
  by_cases hb : s.best.isSome
  · simp [hb]
  · have hb' : s.best = none := by simpa using hb
    simp only [hb, if_false]
    unfold BestInv BestSpec at h
    cases hl : s.lowest with
    | none => rfl
    | some m =>
      rw [hl] at h
      obtain ⟨hlen, _, i, hi, _, _, hbest⟩ := h
      rw [hb'] at hbest
      have : i < s.cand.length := by omega
      rw [List.getElem?_eq_getElem this] at hbest
      cases hbest

/-- the loaded solver satisfies the best-tracking invariant of the original (when validation stays enabled/disabled) -/
theorem bestInv_load (s : State) (nT nV nM : Nat) (h : BestInv s) (hv : s.nValid = 0 ↔ nV = 0) :
    BestInv (load (file s) nT nV nM) := by
  have hl := load_restores_lowest s nT nV nM h
  unfold BestInv tracked at h ⊢
  rw [hl]
  have e : (load (file s) nT nV nM).nValid = nV := rfl
  have e1 : (load (file s) nT nV nM).trainLoss = s.trainLoss := rfl
  have e2 : (load (file s) nT nV nM).validLoss = s.validLoss := rfl
  have e3 : (load (file s) nT nV nM).cand = s.cand := rfl
  have e4 : (load (file s) nT nV nM).best = s.best := rfl
  rw [e, e1, e2, e3, e4]
  by_cases h0 : s.nValid = 0
  · simp only [h0, hv.mp h0, if_true] at h ⊢; exact h
  · have : nV ≠ 0 := fun hh => h0 (hv.mpr hh)
    simp only [h0, this, if_false] at h ⊢; exact h

/-- **C18, resume clause.**  After save → load → any further sequence of fits, best-model tracking still refers to
the lowest loss of the WHOLE history (restored + new) -/
theorem resume_tracks_global_min (c : Cfg) (sched) (ms : List Nat) (call : Nat) (s : State) (nT nV nM : Nat)
    (h : BestInv s) (hv : s.nValid = 0 ↔ nV = 0) :
    BestInv (fits c sched call ms (load (file s) nT nV nM)) :=
  best_tracking c sched ms call _ (bestInv_load s nT nV nM h hv)

/-- any number of save/load/fit cycles -/
theorem cycles_track_global_min (c : Cfg) (sched) (nT nV nM : Nat) (hnv : nV ≠ 0) :
    ∀ (cycles : List (List Nat)) (s : State), BestInv s → s.nValid ≠ 0 →
      BestInv (cycles.foldl (fun st ms => fits c sched 0 ms (load (file st) nT nV nM)) s) := by
  intro cycles
  induction cycles with
  | nil => intro s h _; exact h
  | cons ms rest ih =>
    intro s h hs
    simp only [List.foldl_cons]
    apply ih
    · exact resume_tracks_global_min c sched ms 0 s nT nV nM h ⟨fun h0 => absurd h0 hs, fun h0 => absurd h0 hnv⟩
    · -- nValid is never changed by training
      have : ∀ (ms : List Nat) (call : Nat) (t : State), (fits c sched call ms t).nValid = t.nValid := by
        intro ms
        induction ms with
        | nil => intro call t; rfl
        | cons m r ihh =>
          intro call t
          simp only [fits]
          rw [ihh]
          have hloop : ∀ k i u, (fitLoop c sched call k i u).nValid = u.nValid := by
            intro k
            induction k with
            | zero => intro i u; rfl
            | succ k ihk =>
              intro i u
              simp only [fitLoop]
              split
              · rfl
              · rw [ihk]
                unfold epoch
                rw [(runCallbacks_frame sched call _).2.1]
                have hve : ∀ x : State, (validEpoch c x).nValid = x.nValid := by
                  intro x
                  by_cases hx : x.nValid = 0
                  · rw [validEpoch_skip c x hx]
                  · exact (core_fields _ _ (core_validEpoch c x hx)).2.2.2.2.1
                have hte : ∀ x : State, (trainEpoch c x).nValid = x.nValid := by
                  intro x
                  by_cases hx : x.nTrain = 0
                  · rw [trainEpoch_skip c x hx]
                  cases hk : x.optKind with
                  | plain => exact (core_fields _ _ (core_trainEpoch_plain c x hx hk)).2.2.2.2.1
                  | closure =>
                    obtain ⟨v, m, hc⟩ := core_trainEpoch_closure c x hx hk
                    exact (core_fields _ _ hc).2.2.2.2.1
                rw [hve, hte]
          exact hloop m 0 _
      rw [this]
      exact hnv

/-- regression witness for the repaired defect: without restoring `lowest_loss` the invariant breaks after load
(history non-empty but lowest = none) and the next epoch overwrites the best networks with a WORSE loss -/
theorem loadOld_breaks_tracking :
    let c : Cfg := { userLoss := fun _ _ tr i => if tr then 0 else [3, 9].getD i 0, metric := fun _ _ _ _ => 0, nMetrics := 0,
                     plainStep := fun _ => 1, closureShifts := fun _ => [] }
    let s := fits c (fun _ _ => []) 0 [1] (init 0 .plain 1 1 0)
    let l := fits c (fun _ _ => []) 0 [1] (loadOld (file s) 1 1 0)
    s.lowest = some 3 ∧ l.validLoss = [3, 9] ∧ l.lowest = some 9 ∧ l.best = some 2 := by
  decide

example :
    let c : Cfg := { userLoss := fun _ _ tr i => if tr then 0 else [3, 9].getD i 0, metric := fun _ _ _ _ => 0, nMetrics := 0,
                     plainStep := fun _ => 1, closureShifts := fun _ => [] }
    let s := fits c (fun _ _ => []) 0 [1] (init 0 .plain 1 1 0)
    let l := fits c (fun _ _ => []) 0 [1] (load (file s) 1 1 0)
    l.validLoss = [3, 9] ∧ l.lowest = some 3 ∧ l.best = some 1 := by
  decide

end NdeVerif.C18
