/-
  C02 (irregular-domain clause): with Dirichlet control points only, the function enforced by
  `pde.CustomBoundaryCondition` equals the prescribed value at every control point, independently of the network —
  provided the thin-plate-spline coefficients solve the linear system that `_solve_thin_plate_spline` sets up.
  The model `NdeVerif.Tps` is tied to the code by the correspondence of ./check C02 (values of A_D, L_D, enforce at
  random points; rows of the captured system; residual of the numerical solve).
-/
import NdeVerif.Model.Tps
import Mathlib.Analysis.SpecialFunctions.Log.Basic
import Mathlib.Tactic.Ring
import Mathlib.Tactic.Linarith

namespace NdeVerif.C02
open NdeVerif.Tps

noncomputable def realOps : Ops ℝ := ⟨(· + ·), (· - ·), (· * ·), Real.log, 0, 1⟩

theorem sum_eq (l : List ℝ) : Tps.sum realOps l = l.sum := by
  induction l with
  | nil => rfl
  | cons x xs ih => simp only [Tps.sum, List.foldr_cons, List.sum_cons] at ih ⊢; rw [ih]; rfl

/-- the two ways the code computes the squared distance (row point vs column point when fitting; control point vs
evaluation point when interpolating) agree -/
theorem riSq_symm (s : ℝ) (p q : ℝ × ℝ) : riSq realOps s p q = riSq realOps s q p := by
  simp only [riSq, realOps]; ring

theorem basis_symm (s : ℝ) (p q : ℝ × ℝ) : basis realOps s p q = basis realOps s q p := by
  simp only [basis, riSq_symm s p q]

theorem zipWith_basis (s : ℝ) (x : ℝ × ℝ) : ∀ (coefs : List ℝ) (pts : List (ℝ × ℝ)),
    (List.zipWith (fun c p => c * basis realOps s p x) coefs pts).sum =
      (List.zipWith (· * ·) (pts.map (fun q => basis realOps s x q)) coefs).sum := by
  intro coefs
  induction coefs with
  | nil => intro pts; cases pts <;> simp
  | cons c cs ih =>
    intro pts
    cases pts with
    | nil => simp
    | cons p ps => simp only [List.zipWith_cons_cons, List.sum_cons, List.map_cons, ih ps, basis_symm s p x]; ring

theorem zipWith_append_take (a b c : List ℝ) (h : a.length ≤ c.length) :
    (List.zipWith (· * ·) (a ++ b) c).sum =
      (List.zipWith (· * ·) a c).sum + (List.zipWith (· * ·) b (c.drop a.length)).sum := by
  induction a generalizing c with
  | nil => simp
  | cons x xs ih =>
    cases c with
    | nil => simp at h
    | cons y ys =>
      simp only [List.cons_append, List.zipWith_cons_cons, List.sum_cons, List.length_cons, List.drop_succ_cons]
      rw [ih ys (by simpa using h)]; ring

/-- **interpolation at a control point is the corresponding row of the linear system applied to the coefficients** -/
theorem interp_at_control (s : ℝ) (pts : List (ℝ × ℝ)) (coefs : List ℝ) (pk : ℝ × ℝ)
    (hc : coefs.length = pts.length + 3) :
    interp realOps s pts coefs pk 0 = dot realOps (row realOps s pts pk) coefs := by
  simp only [interp, dot, row, sum_eq]
  show (List.zipWith (fun c p => c * basis realOps s p pk) coefs pts).sum + coefs.getD pts.length 0
      + coefs.getD (pts.length + 1) 0 * pk.1 + coefs.getD (pts.length + 2) 0 * pk.2 = _
  have hlen : (pts.map (fun q => basis realOps s pk q)).length ≤ coefs.length := by simp [hc]
  rw [show (List.zipWith realOps.mul (pts.map (fun q => basis realOps s pk q) ++ [realOps.one, pk.1, pk.2]) coefs)
        = List.zipWith (· * ·) (pts.map (fun q => basis realOps s pk q) ++ [1, pk.1, pk.2]) coefs from rfl,
    zipWith_append_take _ _ _ hlen, zipWith_basis]
  simp only [List.length_map]
  -- the last three coefficients
  obtain ⟨c0, c1, c2, htail⟩ : ∃ c0 c1 c2, coefs.drop pts.length = [c0, c1, c2] := by
    have : (coefs.drop pts.length).length = 3 := by simp [hc]
    match h : coefs.drop pts.length, this with
    | [a, b, c], _ => exact ⟨a, b, c, rfl⟩
  have g0 : coefs.getD pts.length 0 = c0 := by
    have := congrArg (fun l => l.getD 0 0) htail; simpa [List.getD_eq_getElem?_getD, List.getElem?_drop] using this
  have g1 : coefs.getD (pts.length + 1) 0 = c1 := by
    have := congrArg (fun l => l.getD 1 0) htail; simpa [List.getD_eq_getElem?_getD, List.getElem?_drop] using this
  have g2 : coefs.getD (pts.length + 2) 0 = c2 := by
    have := congrArg (fun l => l.getD 2 0) htail; simpa [List.getD_eq_getElem?_getD, List.getElem?_drop] using this
  rw [htail, g0, g1, g2]
  simp only [List.zipWith_cons_cons, List.zipWith_nil_left, List.sum_cons, List.sum_nil]
  ring

/-- **C02, irregular domain.**  If the coefficient vectors satisfy the k-th equations of their linear systems
(`row_k · c_A = val_k`, `row_k · c_x = target_k.x`, `row_k · c_y = target_k.y`) and the k-th circular target lies on
the circle of the given radius, then the enforced function takes the prescribed value at control point k for EVERY
network output `n` there. -/
theorem enforce_at_control (s radius : ℝ) (pts : List (ℝ × ℝ)) (ca cx cy : List ℝ) (pk : ℝ × ℝ) (val tx ty n : ℝ)
    (ha : ca.length = pts.length + 3) (hx : cx.length = pts.length + 3) (hy : cy.length = pts.length + 3)
    (eqA : dot realOps (row realOps s pts pk) ca = val)
    (eqX : dot realOps (row realOps s pts pk) cx = tx) (eqY : dot realOps (row realOps s pts pk) cy = ty)
    (hcirc : tx * tx + ty * ty = radius * radius) :
    enforce realOps s radius pts ca cx cy pk n 0 = val := by
  simp only [enforce, lengthFactor]
  rw [interp_at_control s pts ca pk ha, interp_at_control s pts cx pk hx, interp_at_control s pts cy pk hy, eqA, eqX, eqY]
  show val + (radius * radius - (tx * tx + ty * ty)) * n = val
  rw [hcirc]; ring

/-- the circular targets of `_create_circular_targets` lie on the circle -/
theorem circular_target_on_circle (radius θ : ℝ) :
    (radius * Real.cos θ) * (radius * Real.cos θ) + (radius * Real.sin θ) * (radius * Real.sin θ) = radius * radius := by
  have := Real.sin_sq_add_cos_sq θ
  nlinarith [this]

/-- non-vacuity: a one-point system whose coefficients solve their rows -/
example : enforce realOps 0 1 [((0:ℝ), (0:ℝ))] [0, 7, 0, 0] [0, 1, 0, 0] [0, 0, 0, 0] (0, 0) 123 0 = 7 := by
  apply enforce_at_control 0 1 _ _ _ _ _ 7 1 0 123 rfl rfl rfl <;>
    simp [dot, row, Tps.sum, basis, riSq, realOps]

end NdeVerif.C02
