/-
  C19 — provided networks are pointwise maps with the requested architecture.
  Theorems about `NdeVerif.Networks` (the model tied to `neurodiffeq.networks` by the correspondence check of
  ./check C19).  The traced `forward` methods of the activations are tied to the documented formulas by the generated
  file `NdeVerif/Gen/C19.lean`; the real-analysis statements below are about the model's `Act.eval` over ℝ.
-/
import NdeVerif.Model.Networks
import Mathlib.Analysis.SpecialFunctions.Sigmoid
import Mathlib.Analysis.SpecialFunctions.Trigonometric.Basic
import Mathlib.Tactic.Ring
import Mathlib.Tactic.FieldSimp

set_option linter.unusedSectionVars false

namespace NdeVerif.C19
open NdeVerif.Networks

/-! ### architecture of `FCNN` -/

/-- the requested architecture: `Linear(prev, h) , actv` for every hidden width, then `Linear(last, nOut)` -/
def spec (nOut : Nat) : Nat → List Nat → List Layer
  | prev, [] => [.linear prev nOut true]
  | prev, h :: hs => .linear prev h true :: .actv :: spec nOut h hs

/-- (in_features, out_features) of the linear layers, in order -/
def linears : List Layer → List (Nat × Nat)
  | [] => []
  | .linear i o _ :: ls => (i, o) :: linears ls
  | .actv :: ls => linears ls

def biases : List Layer → List Bool
  | [] => []
  | .linear _ _ b :: ls => b :: biases ls
  | .actv :: ls => biases ls

/-- the index loop of the constructor builds exactly the recursive specification -/
theorem buildLayers_eq_spec (nOut : Nat) : ∀ (hidden : List Nat) (nIn : Nat),
    buildLayers nIn nOut hidden = spec nOut nIn hidden := by
  intro hidden
  induction hidden with
  | nil => intro nIn; simp [buildLayers, spec]
  | cons h hs ih =>
    intro nIn
    have := ih h
    simp only [buildLayers, List.length_cons, Nat.add_sub_cancel, List.getLastD_cons, List.getD_cons_succ] at this ⊢
    rw [List.range_succ_eq_map, List.flatMap_cons, List.flatMap_map]
    simp only [List.getD_cons_zero, List.getD_cons_succ, Nat.succ_eq_add_one, spec, List.cons_append,
      List.nil_append]
    rw [this]

theorem spec_length (nOut : Nat) : ∀ (hidden : List Nat) (prev : Nat),
    (spec nOut prev hidden).length = 2 * hidden.length + 1 := by
  intro hidden
  induction hidden with
  | nil => intro prev; simp [spec]
  | cons h hs ih => intro prev; simp [spec, ih h]; omega

theorem spec_linears_in (nOut : Nat) : ∀ (hidden : List Nat) (prev : Nat),
    (linears (spec nOut prev hidden)).map (·.1) = prev :: hidden := by
  intro hidden
  induction hidden with
  | nil => intro prev; simp [spec, linears]
  | cons h hs ih => intro prev; simp [spec, linears, ih h]

theorem spec_linears_out (nOut : Nat) : ∀ (hidden : List Nat) (prev : Nat),
    (linears (spec nOut prev hidden)).map (·.2) = hidden ++ [nOut] := by
  intro hidden
  induction hidden with
  | nil => intro prev; simp [spec, linears]
  | cons h hs ih => intro prev; simp [spec, linears, ih h]

theorem spec_biases (nOut : Nat) : ∀ (hidden : List Nat) (prev : Nat),
    biases (spec nOut prev hidden) = List.replicate (hidden.length + 1) true := by
  intro hidden
  induction hidden with
  | nil => intro prev; simp [spec, biases]
  | cons h hs ih => intro prev; simp [spec, biases, ih h, List.replicate_succ]

theorem spec_count_actv (nOut : Nat) : ∀ (hidden : List Nat) (prev : Nat),
    (spec nOut prev hidden).count .actv = hidden.length := by
  intro hidden
  induction hidden with
  | nil => intro prev; simp [spec]
  | cons h hs ih => intro prev; simp [spec, ih h]

/-- position-wise reading of `spec`: layer `2k` is `Linear(units[k], hidden[k])`, layer `2k+1` is the activation,
    the last layer (index `2·|hidden|`) is `Linear(units[-1], nOut)`; `units = nIn :: hidden` -/
theorem spec_getElem (nOut : Nat) : ∀ (hidden : List Nat) (prev : Nat),
    (∀ k, k < hidden.length →
      (spec nOut prev hidden)[2 * k]? = some (.linear ((prev :: hidden).getD k 0) (hidden.getD k 0) true) ∧
      (spec nOut prev hidden)[2 * k + 1]? = some .actv) ∧
    (spec nOut prev hidden)[2 * hidden.length]? = some (.linear ((prev :: hidden).getLastD 0) nOut true) := by
  intro hidden
  induction hidden with
  | nil => intro prev; simp [spec]
  | cons h hs ih =>
    intro prev
    obtain ⟨h1, h2⟩ := ih h
    refine ⟨?_, ?_⟩
    · intro k hk
      cases k with
      | zero => simp [spec]
      | succ k =>
        have := h1 k (by simpa using hk)
        have e1 : 2 * (k + 1) = (2 * k) + 1 + 1 := by omega
        rw [e1]
        simpa [spec] using this
    · have e : 2 * (h :: hs).length = 2 * hs.length + 1 + 1 := by simp; omega
      rw [e]
      simpa [spec] using h2

/-- **C19, architecture clause.**  For all `nIn nOut` and every `hidden_units` list, `FCNN(nIn, nOut,
hidden_units=hidden).NN` is the Linear/activation alternation over `units = nIn :: hidden` followed by
`Linear(units[-1], nOut)`: exactly `2·|hidden| + 1` entries, `|hidden|` activations, every linear layer has a bias,
the in-features are `nIn :: hidden`, the out-features are `hidden ++ [nOut]` (so first in = nIn, last out = nOut and
each linear layer's output width is the next one's input width). -/
theorem fcnn_layers_shape (nIn nOut : Nat) (hidden : List Nat) :
    fcnnLayers nIn nOut none none (some hidden) = spec nOut nIn hidden ∧
    (fcnnLayers nIn nOut none none (some hidden)).length = 2 * hidden.length + 1 ∧
    (fcnnLayers nIn nOut none none (some hidden)).count .actv = hidden.length ∧
    (linears (fcnnLayers nIn nOut none none (some hidden))).map (·.1) = nIn :: hidden ∧
    (linears (fcnnLayers nIn nOut none none (some hidden))).map (·.2) = hidden ++ [nOut] ∧
    biases (fcnnLayers nIn nOut none none (some hidden)) = List.replicate (hidden.length + 1) true := by
  have e : fcnnLayers nIn nOut none none (some hidden) = spec nOut nIn hidden := by
    simp [fcnnLayers, resolveHidden, buildLayers_eq_spec]
  rw [e]
  exact ⟨rfl, spec_length _ _ _, spec_count_actv _ _ _, spec_linears_in _ _ _, spec_linears_out _ _ _,
    spec_biases _ _ _⟩

/-- consecutive linear layers are dimension-compatible: out-features of the `i`-th = in-features of the `(i+1)`-th -/
theorem fcnn_linears_compatible (nIn nOut : Nat) (hidden : List Nat) (i : Nat) (a b : Nat × Nat)
    (ha : (linears (fcnnLayers nIn nOut none none (some hidden)))[i]? = some a)
    (hb : (linears (fcnnLayers nIn nOut none none (some hidden)))[i + 1]? = some b) : a.2 = b.1 := by
  obtain ⟨_, _, _, hin, hout, _⟩ := fcnn_layers_shape nIn nOut hidden
  have h1 := congrArg (fun l => l[i]?) hout
  have h2 := congrArg (fun l => l[i + 1]?) hin
  simp only [List.getElem?_map, ha, hb, Option.map_some, List.getElem?_cons_succ] at h1 h2
  have hi : i < hidden.length := by
    by_contra hcon
    have : hidden[i]? = none := by simp; omega
    simp [this] at h2
  rw [List.getElem?_append_left hi] at h1
  rw [← h1] at h2
  exact (Option.some.inj h2).symm

/-- the same for every combination of constructor arguments: the architecture is `spec` of the resolved tuple -/
theorem fcnn_layers_general (nIn nOut : Nat) (nHU nHL : Option Nat) (hidden : Option (List Nat)) :
    fcnnLayers nIn nOut nHU nHL hidden = spec nOut nIn (resolveHidden nHU nHL hidden) := by
  simp [fcnnLayers, buildLayers_eq_spec]

/-! ### the deprecated size arguments -/

/-- **C19, legacy clause.**  `FCNN(n_hidden_units=h, n_hidden_layers=l)` builds the same architecture as the
documented replacement `FCNN(hidden_units=(h,)*(l+1))`. -/
theorem legacy_same (nIn nOut h l : Nat) :
    fcnnLayers nIn nOut (some h) (some l) none = fcnnLayers nIn nOut none none (some (List.replicate (l + 1) h)) := by
  simp [fcnnLayers, resolveHidden]

/-- only `n_hidden_units=h`: `n_hidden_layers` defaults to 1, i.e. `hidden_units=(h, h)` -/
theorem legacy_units_only (nIn nOut h : Nat) :
    fcnnLayers nIn nOut (some h) none none = fcnnLayers nIn nOut none none (some [h, h]) := by
  simp [fcnnLayers, resolveHidden, List.replicate]

/-- only `n_hidden_layers=l`: `n_hidden_units` defaults to 32, i.e. `hidden_units=(32,)*(l+1)` -/
theorem legacy_layers_only (nIn nOut l : Nat) :
    fcnnLayers nIn nOut none (some l) none = fcnnLayers nIn nOut none none (some (List.replicate (l + 1) 32)) := by
  simp [fcnnLayers, resolveHidden]

/-- legacy arguments together with `hidden_units`: the legacy arguments are ignored (only a warning) -/
theorem legacy_ignored (nIn nOut : Nat) (nHU nHL : Option Nat) (hs : List Nat) :
    fcnnLayers nIn nOut nHU nHL (some hs) = fcnnLayers nIn nOut none none (some hs) := by
  cases nHU <;> cases nHL <;> simp [fcnnLayers, resolveHidden]

/-- nothing specified: `hidden_units=(32, 32)` -/
theorem default_hidden (nIn nOut : Nat) :
    fcnnLayers nIn nOut none none none = fcnnLayers nIn nOut none none (some [32, 32]) := by
  simp [fcnnLayers, resolveHidden]

/-- the constructor over Python ints agrees with the natural-number model whenever no size is negative, and raises
    exactly when some size is negative -/
theorem fcnnInit_hidden (nIn nOut : Nat) (hidden : List Nat) :
    fcnnInit nIn nOut none none (some (hidden.map Int.ofNat)) = some (fcnnLayers nIn nOut none none (some hidden)) := by
  have hall : (hidden.map Int.ofNat).all (0 ≤ ·) = true := by
    simp [List.all_eq_true]
  have hmap : (hidden.map Int.ofNat).map Int.toNat = hidden := by
    simp [List.map_map, Function.comp_def]
  simp only [fcnnInit, resolveHiddenInt, fcnnLayers, resolveHidden]
  simp [hall, hmap]

theorem fcnnInit_legacy (nIn nOut h l : Nat) :
    fcnnInit nIn nOut (some (h : Int)) (some (l : Int)) none = some (fcnnLayers nIn nOut (some h) (some l) none) := by
  have e : ((l : Int) + 1).toNat = l + 1 := by omega
  simp only [fcnnInit, resolveHiddenInt, fcnnLayers, resolveHidden]
  simp [e, List.all_replicate]

/-- `n_hidden_layers ≤ -1` is accepted and means no hidden layer at all (`range` of a non-positive number) -/
theorem fcnnInit_negative_layers (nIn nOut h : Nat) (l : Int) (hl : l ≤ -1) :
    fcnnInit nIn nOut (some (h : Int)) (some l) none = some [.linear nIn nOut true] := by
  have e : (l + 1).toNat = 0 := by omega
  simp only [fcnnInit, resolveHiddenInt]
  simp [e, buildLayers]

theorem fcnnInit_raises_iff (nIn nOut : Int) (nHU nHL : Option Int) (hidden : Option (List Int)) :
    fcnnInit nIn nOut nHU nHL hidden = none ↔
      (nIn < 0 ∨ nOut < 0 ∨ ∃ w ∈ resolveHiddenInt nHU nHL hidden, w < 0) := by
  simp only [fcnnInit]
  split
  · rename_i hall
    simp only [List.all_cons, Bool.and_eq_true, decide_eq_true_eq, List.all_eq_true] at hall
    constructor
    · intro h; cases h
    · rintro (h | h | ⟨w, hw, h⟩)
      · omega
      · omega
      · have := hall.2.2 w hw; omega
  · rename_i hall
    simp only [List.all_cons, Bool.and_eq_true, decide_eq_true_eq, List.all_eq_true, not_and, not_forall] at hall
    refine ⟨fun _ => ?_, fun _ => rfl⟩
    by_cases h1 : 0 ≤ nIn
    · by_cases h2 : 0 ≤ nOut
      · obtain ⟨w, hw, hneg⟩ := hall h1 h2
        exact Or.inr (Or.inr ⟨w, hw, by omega⟩)
      · exact Or.inr (Or.inl (by omega))
    · exact Or.inl (by omega)

/-! ### `Resnet` -/

/-- **C19, residual variant.**  `Resnet(nIn, nOut, hidden_units=hidden)` = a bias-free `Linear(nIn, nOut)` skip
connection plus the fully connected architecture. -/
theorem resnet_layers (nIn nOut : Nat) (hidden : List Nat) :
    resnetLayers nIn nOut none none (some hidden) = (.linear nIn nOut false, spec nOut nIn hidden) := by
  simp [resnetLayers, (fcnn_layers_shape nIn nOut hidden).1]

/-- What the code does with the deprecated arguments of `Resnet`: because the signature default is
`hidden_units=(32, 32)` (not `None`), they are *ignored* unless the caller passes `hidden_units=None` explicitly. -/
theorem resnet_legacy_default_ignored (nIn nOut : Nat) (nHU nHL : Option Nat) :
    resnetLayers nIn nOut nHU nHL = (.linear nIn nOut false, spec nOut nIn [32, 32]) := by
  simp [resnetLayers, legacy_ignored, (fcnn_layers_shape nIn nOut [32, 32]).1]

theorem resnet_legacy_explicit_none (nIn nOut h l : Nat) :
    resnetLayers nIn nOut (some h) (some l) none = (.linear nIn nOut false, spec nOut nIn (List.replicate (l + 1) h)) := by
  simp [resnetLayers, legacy_same, (fcnn_layers_shape nIn nOut _).1]

/-! ### forward pass: rows are processed independently, output shape is (n, nOut) -/

section forward
variable {α : Type} [Add α] [Mul α] [Neg α] [Div α] [OfNat α 0] [OfNat α 1]

/-- **C19, pointwise clause (model level; label: partial).**  Output row `i` is `seqRow` of input row `i`: it is a
function of that row alone.  This holds by construction of the model; that `torch.nn.Linear`/the activation modules
treat a batch row by row is torch's behaviour, observed on the real modules by the correspondence check. -/
theorem forward_rowwise (F : Fns α) (ms : List (SeqMod α)) (rows : List (List α)) (i : Nat) :
    (fcnnForward F ms rows)[i]? = rows[i]?.map (seqRow F ms) := by
  simp [fcnnForward]

theorem forward_length (F : Fns α) (ms : List (SeqMod α)) (rows : List (List α)) :
    (fcnnForward F ms rows).length = rows.length := by
  simp [fcnnForward]

/-- two batches (of possibly different sizes) that agree in row `i` give the same output row `i`:
    no other row influences it -/
theorem forward_row_indep (F : Fns α) (ms : List (SeqMod α)) (rows rows' : List (List α)) (i : Nat)
    (h : rows[i]? = rows'[i]?) : (fcnnForward F ms rows)[i]? = (fcnnForward F ms rows')[i]? := by
  rw [forward_rowwise, forward_rowwise, h]

/-- `net(x)[i] = net(x[i:i+1])[0]` -/
theorem forward_single (F : Fns α) (ms : List (SeqMod α)) (rows : List (List α)) (i : Nat) (x : List α)
    (h : rows[i]? = some x) : (fcnnForward F ms rows)[i]? = (fcnnForward F ms [x])[0]? := by
  simp [h, fcnnForward]

theorem resnet_forward_rowwise (F : Fns α) (sk : Lin α) (ms : List (SeqMod α)) (rows : List (List α)) (i : Nat) :
    (resnetForward F sk ms rows)[i]? = rows[i]?.map (resnetRow F sk ms) := by
  simp [resnetForward]

theorem resnet_forward_row_indep (F : Fns α) (sk : Lin α) (ms : List (SeqMod α)) (rows rows' : List (List α))
    (i : Nat) (h : rows[i]? = rows'[i]?) :
    (resnetForward F sk ms rows)[i]? = (resnetForward F sk ms rows')[i]? := by
  rw [resnet_forward_rowwise, resnet_forward_rowwise, h]

/-- weights of the right shape for `Linear(i, o, bias)` -/
def Lin.Shaped (l : Lin α) (i o : Nat) (bias : Bool) : Prop :=
  l.W.length = o ∧ (∀ r ∈ l.W, r.length = i) ∧
    match l.b with
    | none => bias = false
    | some b => bias = true ∧ b.length = o

def Conforms : List (SeqMod α) → List Layer → Prop
  | [], [] => True
  | .lin l :: ms, .linear i o b :: ls => Lin.Shaped l i o b ∧ Conforms ms ls
  | .act _ :: ms, .actv :: ls => Conforms ms ls
  | _, _ => False

theorem lin_apply_length (l : Lin α) (i o : Nat) (b : Bool) (h : Lin.Shaped l i o b) (x : List α) :
    (l.apply x).length = o := by
  obtain ⟨hW, _, hb⟩ := h
  unfold Lin.apply
  split
  · simp [hW]
  · rename_i bb hbb
    rw [hbb] at hb
    simp [hW, hb.2]

theorem seqRow_spec_length (F : Fns α) (nOut : Nat) : ∀ (hidden : List Nat) (prev : Nat) (ms : List (SeqMod α))
    (x : List α), Conforms ms (spec nOut prev hidden) → (seqRow F ms x).length = nOut := by
  intro hidden
  induction hidden with
  | nil =>
    intro prev ms x hc
    match ms, hc with
    | [.lin l], hc =>
      simp only [spec, Conforms] at hc
      simpa [seqRow, SeqMod.apply] using lin_apply_length l _ _ _ hc.1 x
    | .lin l :: _ :: _, hc => simp [spec, Conforms] at hc
    | .act _ :: _, hc => simp [spec, Conforms] at hc
    | [], hc => simp [spec, Conforms] at hc
  | cons h hs ih =>
    intro prev ms x hc
    match ms, hc with
    | .lin l :: .act a :: rest, hc =>
      simp only [spec, Conforms] at hc
      have := ih h rest ((SeqMod.act a).apply F ((SeqMod.lin l).apply F x)) hc.2
      simpa [seqRow] using this
    | .lin l :: .lin _ :: _, hc => simp [spec, Conforms] at hc
    | [.lin l], hc => simp [spec, Conforms] at hc
    | .act _ :: _, hc => simp [spec, Conforms] at hc
    | [], hc => simp [spec, Conforms] at hc

/-- **C19, shape clause.**  With weights shaped like the architecture built by the constructor (any arguments), a batch
of `n` rows is mapped to `n` rows of exactly `nOut` entries. -/
theorem forward_shape (F : Fns α) (nIn nOut : Nat) (nHU nHL : Option Nat) (hidden : Option (List Nat))
    (ms : List (SeqMod α)) (hc : Conforms ms (fcnnLayers nIn nOut nHU nHL hidden)) (rows : List (List α)) :
    (fcnnForward F ms rows).length = rows.length ∧ ∀ y ∈ fcnnForward F ms rows, y.length = nOut := by
  refine ⟨forward_length F ms rows, ?_⟩
  intro y hy
  simp only [fcnnForward, List.mem_map] at hy
  obtain ⟨x, _, rfl⟩ := hy
  rw [fcnn_layers_general] at hc
  exact seqRow_spec_length F nOut _ _ ms x hc

theorem resnet_forward_shape (F : Fns α) (nIn nOut : Nat) (nHU nHL : Option Nat) (hidden : Option (List Nat))
    (sk : Lin α) (ms : List (SeqMod α)) (hs : Lin.Shaped sk nIn nOut false)
    (hc : Conforms ms (resnetLayers nIn nOut nHU nHL hidden).2) (rows : List (List α)) :
    (resnetForward F sk ms rows).length = rows.length ∧ ∀ y ∈ resnetForward F sk ms rows, y.length = nOut := by
  refine ⟨by simp [resnetForward], ?_⟩
  intro y hy
  simp only [resnetForward, List.mem_map] at hy
  obtain ⟨x, _, rfl⟩ := hy
  simp only [resnetLayers] at hc
  rw [fcnn_layers_general] at hc
  simp [resnetRow, lin_apply_length sk _ _ _ hs x, seqRow_spec_length F nOut _ _ ms x hc]

/-! ### MonomialNN -/

theorem monomialRow_length (ds : List Nat) (x : List α) : (monomialRow ds x).length = ds.length * x.length := by
  induction ds with
  | nil => simp [monomialRow]
  | cons d ds ih =>
    simp only [monomialRow, List.flatMap_cons, List.length_append, List.length_map, List.length_cons] at ih ⊢
    rw [ih]; rw [Nat.succ_mul]; omega

/-- **C19, monomial clause (column order).**  Output column `k·m + i` (`m` input columns) is input column `i` raised
to the `k`-th listed degree. -/
theorem monomial_eq (ds : List Nat) (x : List α) (k i : Nat) (d : Nat) (xi : α)
    (hk : ds[k]? = some d) (hi : x[i]? = some xi) :
    (monomialRow ds x)[k * x.length + i]? = some (npow xi d) := by
  have hilt : i < x.length := by
    by_contra hcon
    have : x[i]? = none := by simp; omega
    simp [this] at hi
  induction ds generalizing k with
  | nil => simp at hk
  | cons d0 ds ih =>
    cases k with
    | zero =>
      simp only [List.getElem?_cons_zero, Option.some.injEq] at hk
      subst hk
      simp only [monomialRow, List.flatMap_cons, Nat.zero_mul, Nat.zero_add]
      rw [List.getElem?_append_left (by simpa using hilt)]
      simp [hi]
    | succ k =>
      simp only [List.getElem?_cons_succ] at hk
      have := ih k hk
      simp only [monomialRow, List.flatMap_cons] at this ⊢
      rw [List.getElem?_append_right (by simp [Nat.succ_mul]; omega)]
      simp only [List.length_map]
      have e : (k + 1) * x.length + i - x.length = k * x.length + i := by rw [Nat.succ_mul]; omega
      rw [e]; exact this

end forward

theorem monomial_forward_rowwise {α : Type} [Mul α] [OfNat α 1] (ds : List Nat) (rows : List (List α)) (i : Nat) :
    (monomialForward ds rows)[i]? = rows[i]?.map (monomialRow ds) := by
  simp [monomialForward]

/-- an integer argument `n ≥ 1` means the degrees `1, 2, …, n`; `n ≤ 0` or an empty list raises -/
theorem monomialInit_int (n : Nat) : monomialInit (.inl ((n + 1 : Nat) : Int)) = some (List.range' 1 (n + 1)) := by
  simp [monomialInit]

theorem monomialInit_raises (n : Int) (hn : n ≤ 0) : monomialInit (.inl n) = none ∧ monomialInit (.inr []) = none := by
  have e : n.toNat = 0 := by omega
  simp [monomialInit, e]

/-! ### the activations over ℝ -/

noncomputable def realFns : Fns ℝ := ⟨Real.exp, Real.tanh, Real.sin⟩

theorem npow_eq_pow (x : ℝ) (n : Nat) : npow x n = x ^ n := by
  induction n with
  | zero => simp [npow]
  | succ n ih => simp [npow, ih, pow_succ]

/-- monomial expansion over ℝ: column `k·m + i` is `xᵢ ^ degrees[k]` -/
theorem monomial_eq_real (ds : List Nat) (x : List ℝ) (k i d : Nat) (xi : ℝ)
    (hk : ds[k]? = some d) (hi : x[i]? = some xi) : (monomialRow ds x)[k * x.length + i]? = some (xi ^ d) := by
  rw [monomial_eq ds x k i d xi hk hi, npow_eq_pow]

/-- the model's `torch.sigmoid` is the real sigmoid function -/
theorem sigmoid_eq (x : ℝ) : sigmoid realFns x = Real.sigmoid x := by
  simp [sigmoid, realFns, Real.sigmoid]

/-- **C19, swish.**  `Swish(β).forward(x) = x·σ(βx) = x / (1 + e^{−βx})` for every real `x` and `β` -/
theorem swish_eq (β x : ℝ) :
    (Act.swish β).eval realFns x = x * Real.sigmoid (β * x) ∧
    x * Real.sigmoid (β * x) = x / (1 + Real.exp (-(β * x))) := by
  refine ⟨by simp [Act.eval, sigmoid_eq], ?_⟩
  rw [Real.sigmoid_def, div_eq_mul_inv]

/-- **C19, APTx.**  `APTx(α, β, γ).forward(x) = (α + tanh(βx))·γx` -/
theorem aptx_eq (a b c x : ℝ) : (Act.aptx a b c).eval realFns x = (a + Real.tanh (b * x)) * (c * x) := by
  simp only [Act.eval, realFns]; ring

/-- with the default parameters `α = 1, β = 1, γ = 1/2` -/
theorem aptx_default (x : ℝ) : (Act.aptx 1 1 (1 / 2)).eval realFns x = (1 + Real.tanh x) * x / 2 := by
  simp only [Act.eval, realFns]; ring_nf

/-- **C19, sin.** -/
theorem sinactv_eq (x : ℝ) : Act.sin.eval realFns x = Real.sin x := rfl

theorem tanh_eq (x : ℝ) : Act.tanh.eval realFns x = Real.tanh x := rfl

/-- the right-hand sides printed by the generated file (`x * (1 + exp(-(βx)))⁻¹`) are the model's values -/
theorem swish_gen_form (β x : ℝ) : x * (1 + Real.exp (-(β * x)))⁻¹ = (Act.swish β).eval realFns x := by
  rw [(swish_eq β x).1, Real.sigmoid_def]

/-! ### trainable parameters -/

/-- **C19, trainable clause (model table; the real objects are inspected by the correspondence).**  An activation
registers parameters iff it has scalar hyper-parameters and `trainable=True` was requested. -/
theorem trainable_iff (k : ActKind) (tr : Bool) : paramNames k tr ≠ [] ↔ (tr = true ∧ hasHyper k = true) := by
  cases k <;> cases tr <;> simp [paramNames, hasHyper]

theorem trainable_names : paramNames .swish true = ["beta"] ∧ paramNames .aptx true = ["alpha", "beta", "gamma"] :=
  ⟨rfl, rfl⟩

/-! ### non-vacuity of the hypotheses -/

/-- a concrete conforming network: FCNN(2, 1, hidden_units=(2,)) over the integers -/
def exMods : List (SeqMod Int) :=
  [.lin ⟨[[1, 2], [3, 4]], some [1, -1]⟩, .act .tanh, .lin ⟨[[1, -2]], some [5]⟩]

example : Conforms exMods (fcnnLayers 2 1 none none (some [2])) := by
  simp [fcnnLayers, resolveHidden, buildLayers, exMods, Conforms, Lin.Shaped]

example : fcnnForward ⟨id, id, id⟩ exMods [[1, 0], [0, 1], [1, 0]] = [[3], [2], [3]] := by decide

example : monomialRow [1, 3, 2] [(2 : Int), 3] = [2, 3, 8, 27, 4, 9] := by decide

example : fcnnLayers 2 3 (some 5) (some 1) none =
    [.linear 2 5 true, .actv, .linear 5 5 true, .actv, .linear 5 3 true] := by decide

end NdeVerif.C19
