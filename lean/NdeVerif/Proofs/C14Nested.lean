/-
  C14 — a batch generator over a batch generator (re-batching): the outer stream is the stream of the innermost source.
  The inner generator, seen from outside, is itself a source: its k-th draw is the k-th batch it hands out (`nthBatch`).
-/
import NdeVerif.Proofs.C14

namespace NdeVerif.C14
open NdeVerif.Batch

/-- state of a batch generator after `k` calls -/
def stateAfter (src : Nat → List (List Val)) (bs fuel k : Nat) : BState := (calls src bs fuel k (init src)).1

/-- the batch handed out by call number `k` (counting from 0) -/
def nthBatch (src : Nat → List (List Val)) (bs fuel k : Nat) : List (List Val) :=
  (get src bs fuel (stateAfter src bs fuel k)).2

theorem calls_snoc (src) (bs fuel : Nat) : ∀ k s,
    calls src bs fuel (k+1) s =
      ((get src bs fuel (calls src bs fuel k s).1).1, (calls src bs fuel k s).2 ++ [(get src bs fuel (calls src bs fuel k s).1).2]) := by
  intro k
  induction k with
  | zero => intro s; simp [calls]
  | succ k ih =>
    intro s
    rw [calls]
    simp only []
    rw [ih (get src bs fuel s).1]
    simp [calls]

theorem stateAfter_succ (src) (bs fuel k : Nat) :
    stateAfter src bs fuel (k+1) = (get src bs fuel (stateAfter src bs fuel k)).1 := by
  simp [stateAfter, calls_snoc]

/-- what `k` calls deliver in dimension `d` is the concatenation of the first `k` batches -/
theorem delivered_eq_stream_of_batches (src) (bs fuel d : Nat) : ∀ k,
    deliveredDim (calls src bs fuel k (init src)).2 d = streamDim (nthBatch src bs fuel) d k := by
  intro k
  induction k with
  | zero => simp [calls, deliveredDim, streamDim]
  | succ k ih =>
    rw [calls_snoc, streamDim_succ, ← ih]
    simp [deliveredDim, nthBatch, stateAfter, List.flatMap_append]

theorem firstLen_map_drop (c : List (List Val)) (b : Nat) : firstLen (c.map (·.drop b)) = firstLen c - b := by
  cases c <;> simp [firstLen]

theorem aligned_map_drop (c : List (List Val)) (b : Nat) (h : Aligned c) : Aligned (c.map (·.drop b)) := by
  intro x hx
  obtain ⟨y, hy, rfl⟩ := List.mem_map.mp hx
  rw [firstLen_map_drop, List.length_drop, h y hy]

/-- the invariant of a generator's state: `n` dimensions of a common length -/
theorem state_inv (src) (n bs fuel : Nat) (hwf : WF src n) : ∀ k,
    (stateAfter src bs fuel k).cached.length = n ∧ Aligned (stateAfter src bs fuel k).cached := by
  intro k
  induction k with
  | zero => exact ⟨by simp [stateAfter, calls, init, (hwf 0).1], by simpa [stateAfter, calls, init] using wf_aligned src n hwf 0⟩
  | succ k ih =>
    rw [stateAfter_succ]
    constructor
    · simp [Batch.get, refill_cached_length src n bs hwf fuel _ ih.1]
    · exact aligned_map_drop _ _ (refill_aligned src n bs hwf fuel _ ih.1 ih.2)

/-- seen from outside, a batch generator over a well-formed source is a well-formed source -/
theorem wf_nthBatch (src) (n bs fuel : Nat) (hwf : WF src n) : WF (nthBatch src bs fuel) n := by
  intro k
  have hi := state_inv src n bs fuel hwf k
  have hlen := refill_cached_length src n bs hwf fuel _ hi.1
  have hal := refill_aligned src n bs hwf fuel _ hi.1 hi.2
  constructor
  · simp [nthBatch, Batch.get, hlen]
  · intro d d' hd hd'
    simp only [nthBatch, Batch.get]
    have key : ∀ e, e < n → ((List.map (fun x => List.take bs x) (refill src bs fuel (stateAfter src bs fuel k)).cached).getD e []).length
        = min bs (firstLen (refill src bs fuel (stateAfter src bs fuel k)).cached) := by
      intro e he
      have hlt : e < (refill src bs fuel (stateAfter src bs fuel k)).cached.length := by omega
      rw [List.getD_eq_getElem?_getD, List.getElem?_map, List.getElem?_eq_getElem hlt]
      simp only [Option.map_some, Option.getD_some, List.length_take]
      rw [hal _ (List.getElem_mem hlt)]
    rw [key d hd, key d' hd']

/-- **C14, nested generators.**  A batch generator (batch size `bs₂`) built over a batch generator (batch size `bs₁`) built over `src`:
after any number of outer calls, in every dimension, (outer batches in call order) ++ (outer cache) ++ (inner cache) = (the draws the inner
generator has taken from `src`, in order): re-batching loses, duplicates and reorders nothing, whatever the two batch sizes are. -/
theorem nested_stream (src) (n bs₁ fuel₁ bs₂ fuel₂ k : Nat) (hwf : WF src n) :
    let outer := calls (nthBatch src bs₁ fuel₁) bs₂ fuel₂ k (init (nthBatch src bs₁ fuel₁))
    let inner := stateAfter src bs₁ fuel₁ outer.1.next
    ∀ d, d < n →
      deliveredDim outer.2 d ++ outer.1.cached.getD d [] ++ inner.cached.getD d [] = streamDim src d inner.next := by
  intro outer inner d hd
  have h2 := batch_stream_from_init (nthBatch src bs₁ fuel₁) n bs₂ fuel₂ k (wf_nthBatch src n bs₁ fuel₁ hwf) d hd
  have h1 := batch_stream_from_init src n bs₁ fuel₁ outer.1.next hwf d hd
  rw [delivered_eq_stream_of_batches] at h1
  show deliveredDim outer.2 d ++ outer.1.cached.getD d [] ++ inner.cached.getD d [] = streamDim src d inner.next
  rw [h2]
  exact h1

/-- non-vacuity: the concrete source of `Proofs/C14.lean` re-batched twice (3 then 5), four outer calls -/
example : deliveredDim (calls (nthBatch exSrc 3 3) 5 5 4 (init (nthBatch exSrc 3 3))).2 0
    = [0, 1, 10, 11, 20, 21, 30, 31, 40, 41, 50, 51, 60, 61, 70, 71, 80, 81, 90, 91] := by decide

end NdeVerif.C14
