/-
  C04 / C05 / C15 over ANY history of the public operations of a solver: `run_train_epoch()` and `run_valid_epoch()` called by hand
  (from scripts, or from callbacks between epochs) and whole `fit()` calls, in any order - not only sequences of `fit()` calls.
  Each statement is the induction of the per-operation lemmas of Proofs/C04, C05, C15 over a list of operations.
-/
import NdeVerif.Proofs.C04
import NdeVerif.Proofs.C05
import NdeVerif.Proofs.C15

namespace NdeVerif.AnyHistory
open NdeVerif.Solver

/-- the public operations that advance a solver -/
inductive Op
  | trainEpoch                      -- solver.run_train_epoch()
  | validEpoch                      -- solver.run_valid_epoch()
  | fit (call maxEpochs : Nat)      -- solver.fit(max_epochs), callbacks scheduled by `sched call`

def runOp (c : Cfg) (sched : Nat → Nat → List Action) (s : State) : Op → State
  | .trainEpoch => Solver.trainEpoch c s
  | .validEpoch => Solver.validEpoch c s
  | .fit call m => Solver.fit c sched call m s

def runOps (c : Cfg) (sched : Nat → Nat → List Action) (ops : List Op) (s : State) : State :=
  ops.foldl (runOp c sched) s

/-- an invariant kept by each of the three operations is kept by every history -/
theorem inv_any_history (c : Cfg) (sched) (P : State → Prop)
    (ht : ∀ s, P s → P (Solver.trainEpoch c s)) (hv : ∀ s, P s → P (Solver.validEpoch c s))
    (hf : ∀ call m s, P s → P (Solver.fit c sched call m s)) (ops : List Op) :
    ∀ s, P s → P (runOps c sched ops s) := by
  induction ops with
  | nil => intro s h; exact h
  | cons op ops ih =>
    intro s h
    apply ih
    cases op with
    | trainEpoch => exact ht s h
    | validEpoch => exact hv s h
    | fit call m => exact hf call m s h

/-- **C05.**  After any history, `lowest_loss` is the minimum of the tracked series and `best_nets` the snapshot taken when it first occurred. -/
theorem best_tracking_any_history (c : Cfg) (sched) (ops : List Op) (s : State) (h : C05.BestInv s) :
    C05.BestInv (runOps c sched ops s) :=
  inv_any_history c sched C05.BestInv (fun s h => C05.bestInv_trainEpoch c s h) (fun s h => C05.bestInv_validEpoch c s h)
    (fun call m s h => C05.bestInv_fit c sched call m s h) ops s h

/-- **C15.**  After any history, every custom-metric series has as many entries as the loss series of its phase. -/
theorem series_lengths_any_history (c : Cfg) (sched) (ops : List Op) (s : State) (h : C15.LenInv c s) :
    C15.LenInv c (runOps c sched ops s) :=
  inv_any_history c sched (C15.LenInv c) (fun s h => C15.lenInv_trainEpoch c s h) (fun s h => C15.lenInv_validEpoch c s h)
    (fun call m s h => C15.lenInv_fitLoop c sched call m 0 _ (C15.lenInv_of_frame c s _ h rfl rfl rfl rfl)) ops s h

/-- **C04.**  A validation epoch run by hand, at any point of any history, changes nothing of the training view (parameters, training
losses and metrics, optimiser steps, training draws). -/
theorem manual_validation_changes_nothing (c : Cfg) (sched) (ops : List Op) (s : State) :
    C04.tview (Solver.validEpoch c (runOps c sched ops s)) = C04.tview (runOps c sched ops s) :=
  C04.tview_validEpoch c _

/-- from a fresh solver -/
theorem any_history_from_init (c : Cfg) (sched) (ops : List Op) (θ0 : Int) (opt : OptKind) (nT nV : Nat) :
    C05.BestInv (runOps c sched ops (init θ0 opt nT nV c.nMetrics)) ∧ C15.LenInv c (runOps c sched ops (init θ0 opt nT nV c.nMetrics)) :=
  ⟨best_tracking_any_history c sched ops _ (C05.bestInv_init θ0 opt nT nV c.nMetrics),
   series_lengths_any_history c sched ops _ (C15.lenInv_init c θ0 opt nT nV)⟩

end NdeVerif.AnyHistory
