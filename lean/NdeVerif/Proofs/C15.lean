/-
  C15 — epoch and metric bookkeeping across any sequence of fit() calls.
  Theorems about `NdeVerif.Solver` (tied to the code by the correspondence check of ./check C15).
-/
import NdeVerif.Proofs.SolverLemmas

namespace NdeVerif.C15
open NdeVerif.Solver

/-- the states after each executed epoch of one `fit` loop (mirrors `fitLoop`, keeping the intermediate states) -/
def fitTrace (c : Cfg) (sched : Nat → Nat → List Action) (call : Nat) : Nat → Nat → State → List State
  | 0, _, _ => []
  | k+1, i, s => if s.stop then [] else
      let s' := epoch c sched call i s
      s' :: fitTrace c sched call k (i+1) s'

/-- the result of the loop is the last state of the trace (or the initial state when no epoch ran) -/
theorem fitLoop_eq_trace_last (c : Cfg) (sched) (call : Nat) :
    ∀ k i s, fitLoop c sched call k i s = (fitTrace c sched call k i s).foldl (fun _ x => x) s := by
  intro k
  induction k with
  | zero => intro i s; rfl
  | succ k ih =>
    intro i s
    simp only [fitLoop, fitTrace]
    split
    · rfl
    · rw [ih]; rfl

/-! ### per-epoch effect on lengths, local epoch, draws -/

theorem pushMetrics_length (hist : List (List Val)) (vals : List Val) (h : vals.length = hist.length) :
    (pushMetrics hist vals).length = hist.length := by
  simp [pushMetrics, h]

theorem pushMetrics_mem (hist : List (List Val)) (vals : List Val) (n : Nat) (hl : vals.length = hist.length)
    (h : ∀ m ∈ hist, m.length = n) : ∀ m ∈ pushMetrics hist vals, m.length = n + 1 := by
  intro m hm
  simp only [pushMetrics] at hm
  obtain ⟨i, hi, rfl⟩ := List.getElem_of_mem hm
  simp only [List.getElem_zipWith, List.length_append, List.length_cons, List.length_nil]
  have : i < hist.length := by simp [List.length_zipWith] at hi; omega
  rw [h _ (List.getElem_mem this)]

theorem meanMetrics_length (c : Cfg) (θ : Int) (tr : Bool) (a n : Nat) : (meanMetrics c θ tr a n).length = c.nMetrics := by
  simp [meanMetrics, metricIds]

/-- series-length invariant: every metric series is as long as the loss series of its phase -/
def LenInv (c : Cfg) (s : State) : Prop :=
  s.trainMetric.length = c.nMetrics ∧ s.validMetric.length = c.nMetrics ∧
  (∀ m ∈ s.trainMetric, m.length = s.trainLoss.length) ∧ (∀ m ∈ s.validMetric, m.length = s.validLoss.length)

theorem closure_metric_length (c : Cfg) (lossId idx : Nat) :
    ∀ (shifts : List Int) (θ : Int) (l : Val) (ms : List Val) (log : List Event), ms.length = c.nMetrics →
      (closureEvals c lossId idx shifts θ l ms log).2.2.1.length = c.nMetrics := by
  intro shifts
  induction shifts with
  | nil => intro θ l ms log h; simpa [closureEvals] using h
  | cons sh rest ih => intro θ l ms log _; simp only [closureEvals]; apply ih; simp [metricIds]

theorem iterate_closure_metricSums (c : Cfg) (n : Nat) (s : State) :
    (iterate (trainBatchClosure c) n (s, acc0 c)).2.metricSums.length = c.nMetrics := by
  induction n with
  | zero => simp [iterate, acc0, metricIds]
  | succ n ih =>
    rw [iterate_succ_right]
    generalize iterate (trainBatchClosure c) n (s, acc0 c) = p at *
    simp only [trainBatchClosure, List.length_zipWith, ih]
    rw [closure_metric_length c _ _ _ _ _ _ _ (by simp [metricIds])]
    omega

/-- effect of one training epoch on the series (any optimiser kind) -/
theorem trainEpoch_series (c : Cfg) (s : State) (hn : s.nTrain ≠ 0) :
    ∃ (v : Val) (ms : List Val), ms.length = c.nMetrics ∧
      (trainEpoch c s).trainLoss = s.trainLoss ++ [v] ∧ (trainEpoch c s).trainMetric = pushMetrics s.trainMetric ms ∧
      (trainEpoch c s).validLoss = s.validLoss ∧ (trainEpoch c s).validMetric = s.validMetric ∧
      (trainEpoch c s).localEpoch = s.localEpoch ∧ (trainEpoch c s).maxLocal = s.maxLocal ∧
      (trainEpoch c s).stop = s.stop ∧ (trainEpoch c s).nTrain = s.nTrain ∧ (trainEpoch c s).nValid = s.nValid := by
  cases hk : s.optKind with
  | plain =>
    obtain ⟨e1, e2, e3, e4, e5, e6, e7, e8, e9, e10, e11, e12, e13, e14, e15, e16, e17, e18⟩ :=
      core_fields _ _ (core_trainEpoch_plain c s hn hk)
    exact ⟨_, _, meanMetrics_length c _ _ _ _, e6, e8, e7, e9, e12, e13, e14, e4, e5⟩
  | closure =>
    -- the metric values of a closure epoch are sums of last-evaluation values; only their number matters here
    have hlen := iterate_closure_metricSums c s.nTrain s
    have h1 := iterate_trainBatchClosure c s.nTrain s (acc0 c)
    have hdef : trainEpoch c s =
        recordTrainMetrics (maybeUpdateBestTrain (recordTrain (iterate (trainBatchClosure c) s.nTrain (s, acc0 c)).1
          ((iterate (trainBatchClosure c) s.nTrain (s, acc0 c)).2.epochLoss / (s.nTrain : Int)))
          ((iterate (trainBatchClosure c) s.nTrain (s, acc0 c)).2.epochLoss / (s.nTrain : Int)))
          (divMetrics (iterate (trainBatchClosure c) s.nTrain (s, acc0 c)).2.metricSums s.nTrain) := by
      simp only [trainEpoch, hn, hk, if_false]
    generalize iterate (trainBatchClosure c) s.nTrain (s, acc0 c) = p at *
    obtain ⟨e1, e2, e3, e4, e5, e6, e7, e8, e9, e10, e11, e12, e13, e14, e15, e16, e17, e18⟩ := core_fields _ _ h1
    simp only [core] at e1 e2 e3 e4 e5 e6 e7 e8 e9 e10 e11 e12 e13 e14 e15 e16 e17 e18
    obtain ⟨m1, m2, m3, m4, m5, m6, m7, m8, m9, m10, m11, m12, m13, m14, m15, m16, m17, m18⟩ :=
      core_fields _ _ (core_maybeUpdateBestTrain (recordTrain p.1 (p.2.epochLoss / (s.nTrain : Int))) (p.2.epochLoss / (s.nTrain : Int)))
    simp only [core] at m1 m2 m3 m4 m5 m6 m7 m8 m9 m10 m11 m12 m13 m14 m15 m16 m17 m18
    refine ⟨p.2.epochLoss / (s.nTrain : Int), divMetrics p.2.metricSums s.nTrain, by simp [divMetrics, hlen], ?_⟩
    rw [hdef]
    simp only [recordTrainMetrics, m4, m5, m6, m7, m8, m9, m12, m13, m14]
    simp only [recordTrain, e4, e5, e6, e7, e8, e9, e12, e13, e14]
    exact ⟨trivial, trivial, trivial, trivial, trivial, trivial, trivial, trivial, trivial⟩

theorem validEpoch_series (c : Cfg) (s : State) (hn : s.nValid ≠ 0) :
    (validEpoch c s).validLoss = s.validLoss ++ [meanLoss c s.lossId s.θ false s.validDraws s.nValid] ∧
    (validEpoch c s).validMetric = pushMetrics s.validMetric (meanMetrics c s.θ false s.validDraws s.nValid) ∧
    (validEpoch c s).trainLoss = s.trainLoss ∧ (validEpoch c s).trainMetric = s.trainMetric ∧
    (validEpoch c s).localEpoch = s.localEpoch ∧ (validEpoch c s).maxLocal = s.maxLocal ∧
    (validEpoch c s).stop = s.stop ∧ (validEpoch c s).nTrain = s.nTrain ∧ (validEpoch c s).nValid = s.nValid := by
  obtain ⟨e1, e2, e3, e4, e5, e6, e7, e8, e9, e10, e11, e12, e13, e14, e15, e16, e17, e18⟩ :=
    core_fields _ _ (core_validEpoch c s hn)
  exact ⟨e7, e9, e6, e8, e12, e13, e14, e4, e5⟩

theorem lenInv_trainEpoch (c : Cfg) (s : State) (h : LenInv c s) : LenInv c (trainEpoch c s) := by
  by_cases hn : s.nTrain = 0
  · rw [trainEpoch_skip c s hn]; exact h
  obtain ⟨v, ms, hms, t1, t2, t3, t4, _⟩ := trainEpoch_series c s hn
  obtain ⟨a, b, cc, d⟩ := h
  refine ⟨?_, ?_, ?_, ?_⟩
  · rw [t2, pushMetrics_length _ _ (by omega)]; exact a
  · rw [t4]; exact b
  · rw [t1, t2]; simpa using pushMetrics_mem _ _ _ (by omega) cc
  · rw [t3, t4]; exact d

theorem lenInv_validEpoch (c : Cfg) (s : State) (h : LenInv c s) : LenInv c (validEpoch c s) := by
  by_cases hn : s.nValid = 0
  · rw [validEpoch_skip c s hn]; exact h
  obtain ⟨t1, t2, t3, t4, _⟩ := validEpoch_series c s hn
  obtain ⟨a, b, cc, d⟩ := h
  have hl := meanMetrics_length c s.θ false s.validDraws s.nValid
  refine ⟨?_, ?_, ?_, ?_⟩
  · rw [t4]; exact a
  · rw [t2, pushMetrics_length _ _ (by omega)]; exact b
  · rw [t3, t4]; exact cc
  · rw [t1, t2]; simpa using pushMetrics_mem _ _ _ (by omega) d

theorem lenInv_of_frame (c : Cfg) (s t : State) (h : LenInv c s) (h1 : t.trainLoss = s.trainLoss)
    (h2 : t.validLoss = s.validLoss) (h3 : t.trainMetric = s.trainMetric) (h4 : t.validMetric = s.validMetric) :
    LenInv c t := by
  unfold LenInv at h ⊢; rw [h1, h2, h3, h4]; exact h

theorem lenInv_epoch (c : Cfg) (sched) (call i : Nat) (s : State) (h : LenInv c s) :
    LenInv c (epoch c sched call i s) := by
  unfold epoch
  have h0 : LenInv c { s with localEpoch := i + 1 } := lenInv_of_frame c s _ h rfl rfl rfl rfl
  have h1 := lenInv_validEpoch c _ (lenInv_trainEpoch c _ h0)
  obtain ⟨_, _, f3, f4, f5, f6, _⟩ := runCallbacks_frame sched call
    (validEpoch c (trainEpoch c { s with localEpoch := i + 1 }))
  exact lenInv_of_frame c _ _ h1 f3 f4 f5 f6

theorem lenInv_fitLoop (c : Cfg) (sched) (call : Nat) : ∀ k i s, LenInv c s → LenInv c (fitLoop c sched call k i s) := by
  intro k
  induction k with
  | zero => intro i s h; exact h
  | succ k ih =>
    intro i s h
    simp only [fitLoop]
    split
    · exact h
    · exact ih _ _ (lenInv_epoch c sched call i s h)

/-- **C15, series clause.**  After any sequence of fit() calls every custom-metric series has exactly one entry per
epoch in which its phase ran: as many as the loss series of that phase. -/
theorem series_lengths (c : Cfg) (sched) :
    ∀ (ms : List Nat) (call : Nat) (s : State), LenInv c s → LenInv c (fits c sched call ms s) := by
  intro ms
  induction ms with
  | nil => intro call s h; exact h
  | cons m rest ih =>
    intro call s h
    exact ih _ _ (lenInv_fitLoop c sched call m 0 _ (lenInv_of_frame c s _ h rfl rfl rfl rfl))

theorem lenInv_init (c : Cfg) (θ0 : Int) (opt : OptKind) (nT nV : Nat) : LenInv c (init θ0 opt nT nV c.nMetrics) := by
  simp [LenInv, init]

theorem phases_counts (c : Cfg) (t : State) :
    let u := validEpoch c (trainEpoch c t)
    u.trainLoss.length = t.trainLoss.length + (if t.nTrain = 0 then 0 else 1) ∧
    u.validLoss.length = t.validLoss.length + (if t.nValid = 0 then 0 else 1) ∧
    u.localEpoch = t.localEpoch ∧ u.maxLocal = t.maxLocal := by
  intro u
  have ht : (trainEpoch c t).trainLoss.length = t.trainLoss.length + (if t.nTrain = 0 then 0 else 1)
      ∧ (trainEpoch c t).validLoss = t.validLoss ∧ (trainEpoch c t).localEpoch = t.localEpoch
      ∧ (trainEpoch c t).maxLocal = t.maxLocal ∧ (trainEpoch c t).nValid = t.nValid := by
    by_cases hn : t.nTrain = 0
    · rw [trainEpoch_skip c _ hn]; simp [hn]
    · obtain ⟨v, ms, _, t1, _, t3, _, t5, t6, _, _, t9⟩ := trainEpoch_series c t hn
      simp [t1, t3, t5, t6, t9, hn]
  obtain ⟨t1, t2, t3, t4, t5⟩ := ht
  by_cases hv : t.nValid = 0
  · have : u = trainEpoch c t := validEpoch_skip c _ (by rw [t5]; exact hv)
    rw [this]; simp [t1, t2, t3, t4, hv]
  · obtain ⟨u1, _, u3, _, u5, u6, _⟩ := validEpoch_series c (trainEpoch c t) (by rw [t5]; exact hv)
    simp only [u]
    simp [u1, u3, u5, u6, t1, t2, t3, t4, hv]

/-- one epoch adds exactly one training-loss entry (when training batches are configured) and exactly one
validation-loss entry iff validation is enabled; the global epoch is the length of the training-loss history -/
theorem epoch_counts (c : Cfg) (sched) (call i : Nat) (s : State) :
    let s' := epoch c sched call i s
    globalEpoch s' = globalEpoch s + (if s.nTrain = 0 then 0 else 1) ∧
    s'.validLoss.length = s.validLoss.length + (if s.nValid = 0 then 0 else 1) ∧
    s'.localEpoch = i + 1 ∧ s'.maxLocal = s.maxLocal := by
  intro s'
  obtain ⟨_, f2, f3, f4, _, _, _, _, f9, f10, _⟩ := runCallbacks_frame sched call
    (validEpoch c (trainEpoch c { s with localEpoch := i + 1 }))
  obtain ⟨p1, p2, p3, p4⟩ := phases_counts c { s with localEpoch := i + 1 }
  refine ⟨?_, ?_, ?_, ?_⟩
  · show (runCallbacks sched call (validEpoch c (trainEpoch c { s with localEpoch := i + 1 }))).trainLoss.length = _
    rw [f3]; exact p1
  · show (runCallbacks sched call (validEpoch c (trainEpoch c { s with localEpoch := i + 1 }))).validLoss.length = _
    rw [f4]; exact p2
  · show (runCallbacks sched call (validEpoch c (trainEpoch c { s with localEpoch := i + 1 }))).localEpoch = _
    rw [f9]; exact p3
  · show (runCallbacks sched call (validEpoch c (trainEpoch c { s with localEpoch := i + 1 }))).maxLocal = _
    rw [f10]; exact p4

/-- **C15, local-epoch clause.**  In the `j`-th executed epoch of a `fit(max_epochs)` call the local epoch is `j`
(it restarts at 1 in every call) and never exceeds `max_epochs`; the epochs executed are consecutive; and the loop ends
right after the first epoch whose callbacks requested a stop. -/
theorem trace_local_epoch (c : Cfg) (sched) (call : Nat) :
    ∀ k i s j s', (fitTrace c sched call k i s)[j]? = some s' →
      s'.localEpoch = i + j + 1 ∧ i + j + 1 ≤ i + k := by
  intro k
  induction k with
  | zero => intro i s j s' h; simp [fitTrace] at h
  | succ k ih =>
    intro i s j s' h
    simp only [fitTrace] at h
    split at h
    · simp at h
    · cases j with
      | zero =>
        simp only [List.getElem?_cons_zero, Option.some.injEq] at h
        subst h
        exact ⟨by rw [(epoch_counts c sched call i s).2.2.1], by omega⟩
      | succ j =>
        simp only [List.getElem?_cons_succ] at h
        obtain ⟨a, b⟩ := ih _ _ _ _ h
        exact ⟨by omega, by omega⟩

theorem trace_stops_after_stop (c : Cfg) (sched) (call : Nat) :
    ∀ k i s j s', (fitTrace c sched call k i s)[j]? = some s' → s'.stop = true →
      (fitTrace c sched call k i s).length = j + 1 := by
  intro k
  induction k with
  | zero => intro i s j s' h; simp [fitTrace] at h
  | succ k ih =>
    intro i s j s' h hs
    simp only [fitTrace] at h ⊢
    split at h
    · simp at h
    · rename_i hstop
      simp only [hstop]
      cases j with
      | zero =>
        simp only [List.getElem?_cons_zero, Option.some.injEq] at h
        subst h
        cases k with
        | zero => simp [fitTrace]
        | succ k => simp [fitTrace, hs]
      | succ j =>
        simp only [List.getElem?_cons_succ] at h
        simp [ih _ _ _ _ h hs]

/-- a `fit` call starts with the stop flag cleared, so a stop requested in an earlier call does not leak -/
theorem fit_clears_stop (c : Cfg) (sched) (call m : Nat) (s : State) :
    fit c sched call m s = fitLoop c sched call m 0 { s with stop := false, maxLocal := m } := rfl

/-- **C15, metric clause** (validation phase and plain optimisers): the entry appended to every metric series is the
mean over this epoch's batches of the metric function's value at the parameters of this epoch -/
theorem valid_metric_is_batch_mean (c : Cfg) (s : State) (hn : s.nValid ≠ 0) :
    (validEpoch c s).validMetric =
      pushMetrics s.validMetric ((metricIds c).map (fun m =>
        sumRange (fun i => c.metric m s.θ false i) s.validDraws s.nValid / (s.nValid : Int))) :=
  (validEpoch_series c s hn).2.1

theorem train_metric_is_batch_mean_plain (c : Cfg) (s : State) (hn : s.nTrain ≠ 0) (hk : s.optKind = .plain) :
    (trainEpoch c s).trainMetric =
      pushMetrics s.trainMetric ((metricIds c).map (fun m =>
        sumRange (fun i => c.metric m s.θ true i) s.trainDraws s.nTrain / (s.nTrain : Int))) :=
  (core_fields _ _ (core_trainEpoch_plain c s hn hk)).2.2.2.2.2.2.2.1

/-- closure-based optimisers: one closure step per batch; the metric value kept for a batch is the value of the LAST
closure evaluation of that batch (like the batch loss), independently of how many evaluations the optimiser made -/
theorem closure_keeps_last_evaluation (c : Cfg) (lossId idx : Nat) (shifts : List Int) (sh : Int) (θ : Int) (l : Val)
    (ms : List Val) (log : List Event) :
    (closureEvals c lossId idx (shifts ++ [sh]) θ l ms log).2.1 = c.loss lossId (θ + shifts.sum) true idx ∧
    (closureEvals c lossId idx (shifts ++ [sh]) θ l ms log).2.2.1 =
      (metricIds c).map (fun m => c.metric m (θ + shifts.sum) true idx) := by
  induction shifts generalizing θ l ms log with
  | nil => simp [closureEvals]
  | cons a rest ih =>
    simp only [List.cons_append, closureEvals, List.sum_cons]
    have := ih (θ + a) (c.loss lossId θ true idx) ((metricIds c).map (fun m => c.metric m θ true idx))
      (.evalLoss lossId θ true idx :: .zeroGrad :: log)
    rw [this.1, this.2]
    simp only [Int.add_assoc]
    exact ⟨trivial, trivial⟩

/-- non-vacuity / regression witness: three evaluations of a constant-1 metric in one closure step count once -/
example :
    let c : Cfg := { userLoss := fun _ _ _ _ => 6, metric := fun _ _ _ _ => 1, nMetrics := 1,
                     plainStep := fun _ => 0, closureShifts := fun _ => [1, 1, 1] }
    (trainEpoch c (init 0 .closure 2 1 1)).trainMetric = [[1]] := by decide

end NdeVerif.C15
