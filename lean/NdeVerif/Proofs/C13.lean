/-
  C13 — generator combinators preserve points, pairing and size arithmetic.
  Theorems about `NdeVerif.GenComb` (the model tied to the code by the correspondence check of ./check C13).

  Data are lists of columns (one per dimension).  `rowAt d i` is the `i`-th point (row) of `d`, `rowsOf d` all
  its rows in order.  "Coordinates of one point stay in one row" is expressed by stating every combinator on ROWS.

  Index.  concat: `concat_cols concat_rows concat_size_sum`; ensemble: `ensemble_cols ensemble_row ensemble_size`;
  mesh: `mesh_run meshgrid_col mesh_rows combos_length mem_combos combos_nodup combos_row_major mesh_size_prod
  mesh_flatten mesh_flatten_build`; transform: `transform_run transform_row`; filter: `filter_run filter_rows
  filter_size_updates`; resample: `resample_rows ixUsed_valid resample_distinct`; `static_constant`,
  `predefined_constant`, `sampler_shape`; operator forms: `op_add_eq_concat op_mul_eq_ensemble op_xor_eq_mesh`;
  size bookkeeping: `shape_run size_eq_rows size_eq_rows_calls` under `SizeStable`, and its failure without it
  (`stale_*_over_filter`, `size_eq_rows_fails_without_stable`: the known finding composite-size-stale-over-filter);
  pairing: `paired_run rows_stay_paired static_ctor_paired predefined_ctor_rectOK`.
-/
import NdeVerif.Model.GenComb

namespace NdeVerif.C13
open NdeVerif.GenComb

/-! ### rows of column data -/

def rowAt (d : Data) (i : Nat) : List Val := d.map (fun c => c.getD i 0)
def rowsOf (d : Data) : List (List Val) := (List.range (nrows d)).map (rowAt d)
/-- all columns have `n` entries -/
def Rect (d : Data) (n : Nat) : Prop := ∀ c ∈ d, c.length = n

theorem nrows_of_rect {d : Data} {n : Nat} (h : Rect d n) (hd : d ≠ []) : nrows d = n := by
  cases d with
  | nil => exact absurd rfl hd
  | cons c cs => simpa [nrows] using h c (by simp)

theorem rowsOf_length (d : Data) : (rowsOf d).length = nrows d := by simp [rowsOf]

theorem rowAt_mem_rowsOf {d : Data} {i : Nat} (h : i < nrows d) : rowAt d i ∈ rowsOf d := by
  simp only [rowsOf, List.mem_map, List.mem_range]; exact ⟨i, h, rfl⟩

/-! ### concat: columns are appended, rows are appended, size = sum -/

theorem getD_zipWith_append (a b : Data) (j : Nat) (h : a.length = b.length) :
    (List.zipWith (· ++ ·) a b).getD j [] = a.getD j [] ++ b.getD j [] := by
  induction a generalizing b j with
  | nil => cases b <;> simp_all
  | cons x xs ih =>
    cases b with
    | nil => simp at h
    | cons y ys =>
      cases j with
      | zero => simp
      | succ j => simpa using ih ys j (by simpa using h)

theorem catCols_length (ds : List Data) (k : Nat) (hne : ds ≠ []) (hk : ∀ d ∈ ds, d.length = k) :
    (catCols ds).length = k := by
  induction ds with
  | nil => exact absurd rfl hne
  | cons d ds ih =>
    cases ds with
    | nil => simpa [catCols] using hk d (by simp)
    | cons d' ds =>
      have h1 := ih (by simp) (fun x hx => hk x (by simp [hx]))
      have h0 := hk d (by simp)
      simp only [catCols, List.length_zipWith, h1, h0, Nat.min_self]

/-- column `j` of the concatenation is the children's columns `j` appended in child order -/
theorem catCols_getD (ds : List Data) (k : Nat) (hk : ∀ d ∈ ds, d.length = k) (j : Nat) :
    (catCols ds).getD j [] = ds.flatMap (fun d => d.getD j []) := by
  induction ds with
  | nil => simp [catCols]
  | cons d ds ih =>
    cases ds with
    | nil => simp [catCols]
    | cons d' ds =>
      have h1 := ih (fun x hx => hk x (by simp [hx]))
      have hl := catCols_length (d' :: ds) k (by simp) (fun x hx => hk x (by simp [hx]))
      have h0 := hk d (by simp)
      simp only [catCols] at h1 hl ⊢
      rw [getD_zipWith_append _ _ _ (by rw [h0, hl]), h1]
      simp

theorem concatOutcome_same (ds : List Data) (k : Nat) (hk : ∀ d ∈ ds, d.length = k) :
    concatOutcome ds = (catCols ds, none) := by
  unfold concatOutcome
  have : (ds.any (fun d => d.length == 1) && ds.any (fun d => d.length != 1)) = false := by
    by_cases h1 : k = 1
    · have : ds.any (fun d => d.length != 1) = false := by
        simp only [List.any_eq_false]; intro d hd; simp [hk d hd, h1]
      simp [this]
    · have : ds.any (fun d => d.length == 1) = false := by
        simp only [List.any_eq_false]; intro d hd; simp [hk d hd, h1]
      simp [this]
  simp [this]

/-- **concat, columns.**  If the children return the same number `k` of dimensions, dimension `j` of
`ConcatGenerator.get_examples()` is the children's dimension `j` appended in child order; no exception. -/
theorem concat_cols (s : Nat) (gs : List Obj) (w : World) (k : Nat)
    (hk : ∀ d ∈ (runList gs w).1, d.length = k) (j : Nat) :
    (run (.concat s gs) w).1.getD j [] = (runList gs w).1.flatMap (fun d => d.getD j []) ∧
    (run (.concat s gs) w).2.2 = (runList gs w).2.2 := by
  simp only [run, concatOutcome_same _ k hk]
  exact ⟨catCols_getD _ k hk j, trivial⟩

theorem rowAt_zipWith_lt (a b : Data) (n i : Nat) (h : a.length = b.length) (ha : Rect a n) (hi : i < n) :
    rowAt (List.zipWith (· ++ ·) a b) i = rowAt a i := by
  induction a generalizing b with
  | nil => cases b <;> simp [rowAt]
  | cons x xs ih =>
    cases b with
    | nil => simp at h
    | cons y ys =>
      have hx : x.length = n := ha x (by simp)
      have := ih ys (by simpa using h) (fun c hc => ha c (by simp [hc]))
      simp only [rowAt, List.zipWith_cons_cons, List.map_cons] at this ⊢
      rw [this]
      congr 1
      simp [List.getD_eq_getElem?_getD, List.getElem?_append_left (by omega : i < x.length)]

theorem rowAt_zipWith_ge (a b : Data) (n i : Nat) (h : a.length = b.length) (ha : Rect a n) :
    rowAt (List.zipWith (· ++ ·) a b) (n + i) = rowAt b i := by
  induction a generalizing b with
  | nil => cases b <;> simp_all [rowAt]
  | cons x xs ih =>
    cases b with
    | nil => simp at h
    | cons y ys =>
      have hx : x.length = n := ha x (by simp)
      have := ih ys (by simpa using h) (fun c hc => ha c (by simp [hc]))
      simp only [rowAt, List.zipWith_cons_cons, List.map_cons] at this ⊢
      rw [this]
      congr 1
      simp [List.getD_eq_getElem?_getD, List.getElem?_append_right (by omega : x.length ≤ n + i), hx]

theorem rowsOf_zipWith (a b : Data) (na nb : Nat) (h : a.length = b.length) (hne : a ≠ [])
    (ha : Rect a na) (hb : Rect b nb) :
    rowsOf (List.zipWith (· ++ ·) a b) = rowsOf a ++ rowsOf b ∧ Rect (List.zipWith (· ++ ·) a b) (na + nb) := by
  have hbne : b ≠ [] := by intro hb0; subst hb0; simp at h; exact hne h
  have hrect : Rect (List.zipWith (· ++ ·) a b) (na + nb) := by
    intro c hc
    obtain ⟨i, hi, rfl⟩ := List.getElem_of_mem hc
    simp only [List.length_zipWith] at hi
    simp only [List.getElem_zipWith, List.length_append]
    rw [ha _ (List.getElem_mem _), hb _ (List.getElem_mem _)]
  refine ⟨?_, hrect⟩
  have hz : List.zipWith (· ++ ·) a b ≠ [] := by
    cases a with
    | nil => exact absurd rfl hne
    | cons x xs => cases b with
      | nil => exact absurd rfl hbne
      | cons y ys => simp
  simp only [rowsOf, nrows_of_rect hrect hz, nrows_of_rect ha hne, nrows_of_rect hb hbne, List.range_add,
    List.map_append, List.map_map]
  congr 1
  · apply List.map_congr_left
    intro i hi
    exact rowAt_zipWith_lt a b na i h ha (by simpa using hi)
  · apply List.map_congr_left
    intro i _
    exact rowAt_zipWith_ge a b na i h ha

/-- **concat, rows.**  Children with the same number `k ≥ 1` of dimensions, each rectangular: the rows of the
concatenation are exactly the children's rows, in child order (points stay whole) and it has `Σ` rows. -/
theorem concat_rows (ds : List Data) (k : Nat) (hk1 : 1 ≤ k) (hne : ds ≠ [])
    (hk : ∀ d ∈ ds, d.length = k) (hr : ∀ d ∈ ds, Rect d (nrows d)) :
    rowsOf (catCols ds) = ds.flatMap rowsOf ∧ Rect (catCols ds) ((ds.map nrows).sum) := by
  induction ds with
  | nil => exact absurd rfl hne
  | cons d ds ih =>
    cases ds with
    | nil => simpa [catCols] using hr d (by simp)
    | cons d' ds =>
      have h1 := ih (by simp) (fun x hx => hk x (by simp [hx])) (fun x hx => hr x (by simp [hx]))
      have hl := catCols_length (d' :: ds) k (by simp) (fun x hx => hk x (by simp [hx]))
      have h0 := hk d (by simp)
      have hdne : d ≠ [] := by intro h; subst h; simp at h0; omega
      have := rowsOf_zipWith d (catCols (d' :: ds)) _ _ (by rw [h0, hl]) hdne (hr d (by simp)) h1.2
      simp only [catCols] at this h1 ⊢
      rw [this.1, h1.1]
      exact ⟨by simp, by simpa using this.2⟩

/-- **concat, size.**  `ConcatGenerator.__init__`: `.size` = sum of the children's `.size` at that moment -/
theorem concat_size_sum (os : List Obj) : (mkConcat os).size = (os.map Obj.size).sum := rfl

/-! ### ensemble: dimensions are juxtaposed -/

/-- **ensemble, columns.**  The returned dimensions are the children's dimensions juxtaposed in child order. -/
theorem ensemble_cols (s : Nat) (gs : List Obj) (w : World) :
    (run (.ensemble s gs) w).1 = (runList gs w).1.flatten ∧ (run (.ensemble s gs) w).2.2 = (runList gs w).2.2 := by
  simp [run]

theorem rect_flatten (ds : List Data) (n : Nat) (h : ∀ d ∈ ds, Rect d n) : Rect ds.flatten n := by
  intro c hc
  obtain ⟨d, hd, hcd⟩ := List.mem_flatten.mp hc
  exact h d hd c hcd

/-- **ensemble, rows.**  Hypothesis (the caller's precondition "equal sizes"): every child returns `n` rows.
Then row `i` of the ensemble is row `i` of child 1 ++ row `i` of child 2 ++ …, each a genuine row of its child,
and the result has `n` rows in every dimension. -/
theorem ensemble_row (ds : List Data) (n : Nat) (h : ∀ d ∈ ds, Rect d n) (hne : ∀ d ∈ ds, d ≠ []) (i : Nat) (hi : i < n) :
    rowAt ds.flatten i = (ds.map (fun d => rowAt d i)).flatten ∧ Rect ds.flatten n ∧
    ∀ d ∈ ds, rowAt d i ∈ rowsOf d := by
  refine ⟨by simp [rowAt, List.map_flatten], rect_flatten ds n h, ?_⟩
  intro d hd
  exact rowAt_mem_rowsOf (by rw [nrows_of_rect (h d hd) (hne d hd)]; exact hi)

/-- **ensemble, size.**  `.size` is the first child's; construction succeeds iff all children's `.size` agree -/
theorem ensemble_size (os : List Obj) (o : Obj) (h : mkEnsemble os = .ok o) :
    o.size = (os.headD (.predefined 0 [])).size ∧ ∀ x ∈ os, x.size = o.size := by
  simp only [mkEnsemble] at h
  split at h
  · rename_i hall
    cases h
    refine ⟨rfl, ?_⟩
    intro x hx
    have := List.all_eq_true.mp hall x hx
    simpa [Obj.size] using this
  · cases h

/-! ### mesh: every combination exactly once, row-major; size = product; nested meshes are flattened -/

/-- all combinations of one entry per column, lexicographic (= row-major, `indexing='ij'`): the last column varies
fastest -/
def combos : List (List Val) → List (List Val)
  | [] => [[]]
  | c :: cs => c.flatMap (fun x => (combos cs).map (x :: ·))

theorem length_flatMap_const {α β} (l : List α) (f : α → List β) (m : Nat) (h : ∀ x ∈ l, (f x).length = m) :
    (l.flatMap f).length = l.length * m := by
  induction l with
  | nil => simp
  | cons x xs ih =>
    simp only [List.flatMap_cons, List.length_append, List.length_cons]
    rw [h x (by simp), ih (fun y hy => h y (by simp [hy]))]
    rw [Nat.succ_mul]; omega

/-- **mesh, count.**  There are `∏ len` combinations -/
theorem combos_length (cs : List (List Val)) : (combos cs).length = prodLen cs := by
  induction cs with
  | nil => rfl
  | cons c cs ih =>
    simp only [combos, prodLen]
    rw [length_flatMap_const _ _ (prodLen cs) (by intro x _; simp [ih])]

/-- `r` takes one entry from each column, in column order -/
def Picks : List Val → List (List Val) → Prop
  | [], [] => True
  | x :: r, c :: cs => x ∈ c ∧ Picks r cs
  | _, _ => False

theorem Picks.length_eq : ∀ (r : List Val) (cs : List (List Val)), Picks r cs → r.length = cs.length
  | [], [], _ => rfl
  | x :: r, c :: cs, h => by simp [Picks.length_eq r cs h.2]
  | [], _ :: _, h => by simp [Picks] at h
  | _ :: _, [], h => by simp [Picks] at h

/-- **mesh, every combination.**  `r` is returned iff it takes one entry from each column, in column order -/
theorem mem_combos (cs : List (List Val)) (r : List Val) : r ∈ combos cs ↔ Picks r cs := by
  induction cs generalizing r with
  | nil => cases r <;> simp [combos, Picks]
  | cons c cs ih =>
    simp only [combos, List.mem_flatMap, List.mem_map]
    constructor
    · rintro ⟨x, hx, t, ht, rfl⟩
      exact ⟨hx, (ih t).mp ht⟩
    · intro h
      cases r with
      | nil => simp [Picks] at h
      | cons x t => exact ⟨x, h.1, t, (ih t).mpr h.2, rfl⟩

theorem nodup_flatMap_cons (c : List Val) (l : List (List Val)) (hc : c.Nodup) (hl : l.Nodup) :
    (c.flatMap (fun x => l.map (x :: ·))).Nodup := by
  induction c with
  | nil => simp
  | cons x xs ih =>
    have hx := List.nodup_cons.mp hc
    simp only [List.flatMap_cons]
    refine List.nodup_append.mpr ⟨?_, ih hx.2, ?_⟩
    · exact List.Pairwise.map (x :: ·) (fun a b h => by simpa using h) hl
    · intro a ha b hb
      simp only [List.mem_map] at ha
      obtain ⟨t, _, rfl⟩ := ha
      simp only [List.mem_flatMap, List.mem_map] at hb
      obtain ⟨y, hy, t', _, rfl⟩ := hb
      intro h
      have : x = y := by simpa using (List.cons.inj h).1
      exact hx.1 (this ▸ hy)

/-- **mesh, exactly once.**  Columns without repeated entries give combinations without repetition -/
theorem combos_nodup (cs : List (List Val)) (h : ∀ c ∈ cs, c.Nodup) : (combos cs).Nodup := by
  induction cs with
  | nil => simp [combos]
  | cons c cs ih =>
    exact nodup_flatMap_cons c (combos cs) (h c (by simp)) (ih (fun x hx => h x (by simp [hx])))

theorem getElem?_flatMap_block {α β} (l : List α) (f : α → List β) (m : Nat) (h : ∀ x ∈ l, (f x).length = m)
    (i k : Nat) (hk : k < m) : (l.flatMap f)[i * m + k]? = (l[i]?).bind (fun x => (f x)[k]?) := by
  induction l generalizing i with
  | nil => simp
  | cons x xs ih =>
    have hx := h x (by simp)
    simp only [List.flatMap_cons]
    cases i with
    | zero =>
      simp only [Nat.zero_mul, Nat.zero_add, List.getElem?_cons_zero, Option.bind_some]
      rw [List.getElem?_append_left (by omega)]
    | succ i =>
      rw [List.getElem?_append_right (by rw [hx, Nat.succ_mul]; omega)]
      have : (i + 1) * m + k - (f x).length = i * m + k := by rw [hx, Nat.succ_mul]; omega
      rw [this, ih (fun y hy => h y (by simp [hy]))]
      simp

/-- **mesh, row-major order.**  Combination number `i * ∏(later lengths) + k` is entry `i` of the first column
followed by combination `k` of the later columns -/
theorem combos_row_major (c : List Val) (cs : List (List Val)) (i k : Nat) (hi : i < c.length)
    (hk : k < prodLen cs) :
    (combos (c :: cs))[i * prodLen cs + k]? = some (c[i] :: (combos cs)[k]'(by rw [combos_length]; exact hk)) := by
  simp only [combos]
  rw [getElem?_flatMap_block _ _ (prodLen cs) (by intro x _; simp [combos_length]) i k hk]
  simp [List.getElem?_eq_getElem hi, List.getElem?_eq_getElem (by rw [combos_length]; exact hk : k < (combos cs).length)]

theorem meshgrid_length (cs : List (List Val)) : (meshgrid cs).length = cs.length := by
  induction cs with
  | nil => rfl
  | cons c cs ih => simp [meshgrid, ih]

/-- **mesh, columns.**  Column `j` of `meshgrid(…, indexing='ij')` flattened is coordinate `j` of the combinations
in row-major order -/
theorem meshgrid_col (cs : List (List Val)) (j : Nat) (hj : j < cs.length) :
    (meshgrid cs).getD j [] = (combos cs).map (fun r => r.getD j 0) := by
  induction cs generalizing j with
  | nil => simp at hj
  | cons c cs ih =>
    cases j with
    | zero =>
      simp only [meshgrid, combos, List.getD_cons_zero, List.map_flatMap, List.map_map]
      congr 1
      funext x
      simp [Function.comp_def, combos_length, List.map_const']
    | succ j =>
      have hj' : j < cs.length := by simpa using hj
      have hjm : j < (meshgrid cs).length := by rw [meshgrid_length]; exact hj'
      simp only [meshgrid, combos, List.getD_cons_succ, List.map_flatMap, List.map_map]
      rw [List.getD_eq_getElem?_getD, List.getElem?_map, List.getElem?_eq_getElem hjm]
      have := ih j hj'
      rw [List.getD_eq_getElem?_getD, List.getElem?_eq_getElem hjm] at this
      simp only [Option.map_some, Option.getD_some] at this ⊢
      rw [this]
      clear this ih hj
      induction c with
      | nil => simp
      | cons x xs ihx =>
        simp only [List.length_cons, List.replicate_succ, List.flatten_cons, List.flatMap_cons]
        rw [ihx]
        congr 1

theorem combos_mem_length (cs : List (List Val)) (r : List Val) (h : r ∈ combos cs) : r.length = cs.length := by
  exact Picks.length_eq r cs ((mem_combos cs r).mp h)

theorem rect_meshgrid (cs : List (List Val)) : Rect (meshgrid cs) (prodLen cs) := by
  intro c hc
  obtain ⟨j, hj, rfl⟩ := List.getElem_of_mem hc
  have hj' : j < cs.length := by rwa [meshgrid_length] at hj
  have := meshgrid_col cs j hj'
  rw [List.getD_eq_getElem?_getD, List.getElem?_eq_getElem hj] at this
  simp only [Option.getD_some] at this
  rw [this, List.length_map, combos_length]

/-- **mesh, rows.**  The rows returned by a mesh over the columns `cs` are exactly all combinations, each once,
in row-major order -/
theorem mesh_rows (cs : List (List Val)) (hne : cs ≠ []) : rowsOf (meshgrid cs) = combos cs := by
  have hm : meshgrid cs ≠ [] := by
    intro h; have := meshgrid_length cs; rw [h] at this; exact hne (List.eq_nil_of_length_eq_zero this.symm)
  apply List.ext_getElem
  · rw [rowsOf_length, nrows_of_rect (rect_meshgrid cs) hm, combos_length]
  · intro i h1 h2
    simp only [rowsOf, List.getElem_map, List.getElem_range]
    have hlen := combos_mem_length cs _ (List.getElem_mem h2)
    apply List.ext_getElem
    · simp [rowAt, meshgrid_length, hlen]
    · intro j hj1 hj2
      have hj : j < cs.length := by rw [← hlen]; exact hj2
      have hjm : j < (meshgrid cs).length := by rw [meshgrid_length]; exact hj
      have hc := meshgrid_col cs j hj
      rw [List.getD_eq_getElem?_getD, List.getElem?_eq_getElem hjm] at hc
      simp only [Option.getD_some] at hc
      simp only [rowAt, List.getElem_map, hc]
      simp [List.getD_eq_getElem?_getD, List.getElem?_eq_getElem h2, List.getElem?_eq_getElem hj2]

/-- **mesh, size.**  `.size` = product of the `.size` of the (spliced) sub-generators -/
theorem mesh_size_prod (os : List Obj) :
    (mkMesh os).size = ((spliceMesh os).map Obj.size).foldr (· * ·) 1 := rfl

theorem spliceMesh_append (xs ys : List Obj) : spliceMesh (xs ++ ys) = spliceMesh xs ++ spliceMesh ys := by
  induction xs with
  | nil => rfl
  | cons x xs ih => cases x <;> simp [spliceMesh, ih]

/-- **mesh, flattening.**  `MeshGenerator(MeshGenerator(*xs), *ys)` is the same object as `MeshGenerator(*xs, *ys)`
(same sub-generators in the same order, same size), hence returns the same samples -/
theorem mesh_flatten (xs ys : List Obj) : mkMesh (mkMesh xs :: ys) = mkMesh (xs ++ ys) := by
  simp [mkMesh, spliceMesh, spliceMesh_append]

/-- **mesh, run.**  `MeshGenerator.get_examples()` draws the sub-generators in order, juxtaposes all their
dimensions and meshes those columns; with `mesh_rows`: the rows are all combinations once, row-major -/
theorem mesh_run (s : Nat) (gs : List Obj) (w : World) :
    (run (.mesh s gs) w).1 = meshgrid (runList gs w).1.flatten ∧ (run (.mesh s gs) w).2.2 = (runList gs w).2.2 := by
  simp [run]

/-! ### transform -/

/-- the map a transform applies to one point -/
def appRow : Trans → List Val → List Val
  | .perDim ms, r => List.zipWith appOpt ms r
  | .rev, r => r.reverse
  | .affAll f, r => r.map f.app

/-- **transform, run.**  The given maps are applied to what the sub-generator returned -/
theorem transform_run (s : Nat) (g : Obj) (t : Trans) (w : World) :
    (run (.transform s g t) w).1 = t.app (run g w).1 ∧ (run (.transform s g t) w).2.2 = (run g w).2.2 := by
  simp [run]

theorem getD_map_lt {c : List Val} {i : Nat} (f : Val → Val) (h : i < c.length) :
    (c.map f).getD i 0 = f (c.getD i 0) := by
  simp [List.getD_eq_getElem?_getD, List.getElem?_eq_getElem h]

/-- **transform, rows.**  Row `i` of the result is the transform of row `i` of the input: points stay whole -/
theorem transform_row (t : Trans) (d : Data) (n i : Nat) (hr : Rect d n) (hi : i < n) :
    rowAt (t.app d) i = appRow t (rowAt d i) := by
  cases t with
  | perDim ms =>
    simp only [Trans.app, appRow, rowAt]
    induction ms generalizing d with
    | nil => simp
    | cons m ms ih =>
      cases d with
      | nil => simp
      | cons c cs =>
        simp only [List.zipWith_cons_cons, List.map_cons]
        rw [ih cs (fun x hx => hr x (by simp [hx]))]
        rw [getD_map_lt _ (by rw [hr c (by simp)]; exact hi)]
  | rev => simp [Trans.app, appRow, rowAt]
  | affAll f =>
    simp only [Trans.app, appRow, rowAt, List.map_map]
    apply List.map_congr_left
    intro c hc
    exact getD_map_lt _ (by rw [hr c hc]; exact hi)

/-! ### filter -/

/-- **filter, run.**  The mask is computed from dimension 0 and applied to every dimension; the filter's own
`.size` becomes the number of rows kept (when `update_size`) -/
theorem filter_run (s : Nat) (g : Obj) (p : Pred) (upd : Bool) (w : World) :
    (run (.filter s g p upd) w).1 = (run g w).1.map (keep (((run g w).1.headD []).map p.test)) := by
  simp [run]

/-- **filter, size.**  After every draw of a filter with `update_size=True`, `.size` is the number of rows it
just returned -/
theorem filter_size_updates (s : Nat) (g : Obj) (p : Pred) (w : World) :
    (run (.filter s g p true) w).2.1.size = nrows (run (.filter s g p true) w).1 := by
  simp [run, Obj.size]

theorem keep_eq (mask : List Bool) (c : List Val) (h : mask.length = c.length) :
    keep mask c = ((List.range c.length).filter (fun i => mask.getD i false)).map (fun i => c.getD i 0) := by
  induction mask generalizing c with
  | nil => cases c <;> simp_all [keep]
  | cons b bs ih =>
    cases c with
    | nil => simp at h
    | cons x xs =>
      have := ih xs (by simpa using h)
      have hf : List.filter (fun i => (b :: bs).getD i false) (List.map Nat.succ (List.range xs.length)) =
          List.map Nat.succ (List.filter (fun i => bs.getD i false) (List.range xs.length)) := by
        rw [List.filter_map]; rfl
      have hg : ((fun i => (x :: xs).getD i 0) ∘ Nat.succ) = (fun i => xs.getD i 0) := by
        funext i; simp
      rw [List.length_cons, List.range_succ_eq_map, List.filter_cons]
      cases b
      · rw [if_neg (by simp), hf, List.map_map, hg, ← this]; simp [keep]
      · rw [if_pos (by simp), hf, List.map_cons, List.map_map, hg, ← this]; simp [keep]

/-- **filter, rows.**  Exactly the rows whose dimension-0 coordinate passes the test are kept, in order, each
row whole -/
theorem filter_rows (p : Pred) (d : Data) (n : Nat) (hr : Rect d n) (hne : d ≠ []) :
    rowsOf (d.map (keep ((d.headD []).map p.test))) = (rowsOf d).filter (fun r => p.test (r.headD 0)) ∧
    Rect (d.map (keep ((d.headD []).map p.test))) ((rowsOf d).filter (fun r => p.test (r.headD 0))).length := by
  obtain ⟨c0, cs, rfl⟩ := List.exists_cons_of_ne_nil hne
  have h0 : c0.length = n := hr c0 (by simp)
  have hn : nrows (c0 :: cs) = n := nrows_of_rect hr hne
  simp only [List.headD_cons]
  generalize hmask : c0.map p.test = mask
  have hml : mask.length = n := by simp [← hmask, h0]
  -- the kept positions
  let pos := (List.range n).filter (fun i => mask.getD i false)
  have hk : ∀ c ∈ (c0 :: cs), keep mask c = pos.map (fun i => c.getD i 0) := by
    intro c hc
    rw [keep_eq mask c (by rw [hml, hr c hc]), hr c hc]
  have hfilt : (rowsOf (c0 :: cs)).filter (fun r => p.test (r.headD 0)) = pos.map (rowAt (c0 :: cs)) := by
    simp only [rowsOf, hn, List.filter_map]
    congr 1
    apply List.filter_congr
    intro i hi
    have hi' : i < c0.length := by rw [h0]; simpa using hi
    simp [rowAt, ← hmask, List.getD_eq_getElem?_getD, List.getElem?_eq_getElem hi']
  have hrect : Rect ((c0 :: cs).map (keep mask)) pos.length := by
    intro c hc
    obtain ⟨c', hc', rfl⟩ := List.mem_map.mp hc
    rw [hk c' hc']; simp
  refine ⟨?_, by rw [hfilt]; simpa using hrect⟩
  rw [hfilt]
  have hne' : (c0 :: cs).map (keep mask) ≠ [] := by simp
  simp only [rowsOf, nrows_of_rect hrect hne']
  apply List.ext_getElem
  · simp
  · intro i h1 h2
    simp only [List.getElem_map, List.getElem_range, rowAt, List.map_map]
    apply List.map_congr_left
    intro c hc
    simp only [Function.comp]
    rw [hk c hc]
    have hi : i < pos.length := by simpa using h2
    simp [List.getD_eq_getElem?_getD, List.getElem?_eq_getElem hi]

/-! ### resample -/

/-- **resample, rows.**  Every returned row is a row of the ONE underlying draw `d`: row `k` is row `ix[k]` -/
theorem resample_rows (ix : List Nat) (d : Data) (n : Nat) (hr : Rect d n) (hne : d ≠ []) (hix : ∀ i ∈ ix, i < n) :
    rowsOf (d.map (gather ix)) = ix.map (rowAt d) ∧ (∀ r ∈ rowsOf (d.map (gather ix)), r ∈ rowsOf d) ∧
    Rect (d.map (gather ix)) ix.length := by
  have hrect : Rect (d.map (gather ix)) ix.length := by
    intro c hc
    obtain ⟨c', _, rfl⟩ := List.mem_map.mp hc
    simp [gather]
  have hne' : d.map (gather ix) ≠ [] := by simpa using hne
  have hrows : rowsOf (d.map (gather ix)) = ix.map (rowAt d) := by
    simp only [rowsOf, nrows_of_rect hrect hne']
    apply List.ext_getElem
    · simp
    · intro k h1 h2
      have hk : k < ix.length := by simpa using h2
      simp only [List.getElem_map, List.getElem_range, rowAt, List.map_map]
      apply List.map_congr_left
      intro c _
      simp [gather, List.getD_eq_getElem?_getD, List.getElem?_eq_getElem hk]
  refine ⟨hrows, ?_, hrect⟩
  intro r hr'
  rw [hrows] at hr'
  obtain ⟨i, hi, rfl⟩ := List.mem_map.mp hr'
  exact rowAt_mem_rowsOf (by rw [nrows_of_rect hr hne]; exact hix i hi)

/-- what the model accepts as a recorded `randperm`/`randint` result gives in-range indices, without repetition
when sampling without replacement -/
theorem ixUsed_valid (rc : List Nat) (n s : Nat) (repl : Bool) (h : ixValid rc n s repl = true) :
    (∀ i ∈ ixUsed rc s repl, i < n) ∧ (repl = false → (ixUsed rc s repl).Nodup ∧ (ixUsed rc s repl).length = min s n) := by
  simp only [ixValid, Bool.and_eq_true, List.all_eq_true, decide_eq_true_eq] at h
  constructor
  · intro i hi
    cases repl
    · exact h.1 i (List.mem_of_mem_take (by simpa [ixUsed] using hi))
    · exact h.1 i (by simpa [ixUsed] using hi)
  · intro hr
    subst hr
    simp only [Bool.false_eq_true, if_false, Bool.and_eq_true, beq_iff_eq, decide_eq_true_eq] at h
    simp only [ixUsed, Bool.false_eq_true, if_false, List.length_take, h.2.1]
    exact ⟨h.2.2.sublist (List.take_sublist _ _), trivial⟩

/-- **resample, distinct rows.**  Without replacement (indices without repetition), distinct source rows give
distinct returned rows -/
theorem resample_distinct (ix : List Nat) (d : Data) (n : Nat) (hr : Rect d n) (hne : d ≠ [])
    (hix : ∀ i ∈ ix, i < n) (hnd : ix.Nodup) (hsrc : (rowsOf d).Nodup) : (rowsOf (d.map (gather ix))).Nodup := by
  rw [(resample_rows ix d n hr hne hix).1]
  have hn := nrows_of_rect hr hne
  refine List.Pairwise.map (rowAt d) ?_ (List.Pairwise.and_mem.mp hnd)
  intro a b ⟨ha, hb, hab⟩ heq
  apply hab
  have ha' : a < (rowsOf d).length := by rw [rowsOf_length, hn]; exact hix a ha
  have hb' : b < (rowsOf d).length := by rw [rowsOf_length, hn]; exact hix b hb
  have e1 : (rowsOf d)[a] = rowAt d a := by simp [rowsOf]
  have e2 : (rowsOf d)[b] = rowAt d b := by simp [rowsOf]
  exact (List.getElem_inj (h₀ := ha') (h₁ := hb') hsrc).mp (by rw [e1, e2, heq])

/-! ### static, predefined, sampler -/

theorem calls_const (ex : Data) (o : Obj) (hrun : ∀ w, run o w = (ex, o, w)) :
    ∀ k w, w.err = none → (calls k o w).1.length = k ∧ ∀ x ∈ (calls k o w).1, x.1 = ex ∧ x.2.2 = o.size := by
  intro k
  induction k with
  | zero => intro w _; simp [calls]
  | succ k ih =>
    intro w hw
    have := ih w hw
    simp only [calls, hrun, hw, Option.isSome_none, Bool.false_eq_true, if_false, List.length_cons, this.1,
      List.mem_cons, true_and]
    rintro x (rfl | hx)
    · exact ⟨rfl, rfl⟩
    · exact this.2 x hx

/-- **static.**  Any number of calls returns the examples captured at construction, the size never changes and
the sub-generator is never drawn again -/
theorem static_constant (s : Nat) (g : Obj) (ex : Data) (k : Nat) (w : World) (hw : w.err = none) :
    (calls k (.static s g ex) w).1.length = k ∧ ∀ x ∈ (calls k (.static s g ex) w).1, x.1 = ex ∧ x.2.2 = s :=
  calls_const ex (.static s g ex) (fun _ => by simp [run]) k w hw

/-- **predefined.**  Any number of calls returns the given points -/
theorem predefined_constant (s : Nat) (xs : Data) (k : Nat) (w : World) (hw : w.err = none) :
    (calls k (.predefined s xs) w).1.length = k ∧ ∀ x ∈ (calls k (.predefined s xs) w).1, x.1 = xs ∧ x.2.2 = s :=
  calls_const xs (.predefined s xs) (fun _ => by simp [run]) k w hw

/-- **sampler.**  The solver-facing sampler returns the sub-generator's values, every dimension reshaped to
`(n, 1)` -/
theorem sampler_shape (s : Nat) (g : Obj) (w : World) :
    (run (.sampler s g) w).1 = (run g w).1 ∧
    outShapes (.sampler s g) (run (.sampler s g) w).1 = (run g w).1.map (fun c => [c.length, 1]) := by
  simp [run, outShapes]

/-! ### operator forms -/

/-- **`a + b` is `ConcatGenerator(a, b)`** (same construction effects, same object) -/
theorem op_add_eq_concat (a b : GenExpr) (w : World) : build (.opAdd a b) w = build (.concat [a, b]) w := by
  simp only [build, buildList]
  cases build a w with
  | error e => rfl
  | ok r =>
    obtain ⟨oa, w1⟩ := r
    simp only []
    cases build b w1 with
    | error e => rfl
    | ok r2 => obtain ⟨ob, w2⟩ := r2; simp

/-- **`a * b` is `EnsembleGenerator(a, b)`** -/
theorem op_mul_eq_ensemble (a b : GenExpr) (w : World) : build (.opMul a b) w = build (.ensemble [a, b]) w := by
  simp only [build, buildList]
  cases build a w with
  | error e => rfl
  | ok r =>
    obtain ⟨oa, w1⟩ := r
    simp only []
    cases build b w1 with
    | error e => rfl
    | ok r2 => obtain ⟨ob, w2⟩ := r2; simp

/-- **`a ^ b` is `MeshGenerator(a, b)`** -/
theorem op_xor_eq_mesh (a b : GenExpr) (w : World) : build (.opXor a b) w = build (.mesh [a, b]) w := by
  simp only [build, buildList]
  cases build a w with
  | error e => rfl
  | ok r =>
    obtain ⟨oa, w1⟩ := r
    simp only []
    cases build b w1 with
    | error e => rfl
    | ok r2 => obtain ⟨ob, w2⟩ := r2; simp

/-! ### size bookkeeping: `.size` = number of rows returned, for `SizeStable` trees -/

/-- positional agreement of objects, the data they returned and their static shapes `(rows, dims)` -/
def ShapesOK : List Obj → List Data → List (Nat × Nat) → Prop
  | [], [], [] => True
  | o :: os, d :: ds, x :: sh => o.size = x.1 ∧ 1 ≤ x.2 ∧ d.length = x.2 ∧ Rect d x.1 ∧ ShapesOK os ds sh
  | _, _, _ => False

theorem shapesOK_mem : ∀ (os : List Obj) (ds : List Data) (sh : List (Nat × Nat)), ShapesOK os ds sh →
    ∀ d ∈ ds, ∃ x ∈ sh, 1 ≤ x.2 ∧ d.length = x.2 ∧ Rect d x.1 ∧ nrows d = x.1
  | [], [], [], _ => by simp
  | o :: os, d :: ds, x :: sh, h => by
    intro d' hd'
    rcases List.mem_cons.mp hd' with rfl | hd'
    · have hne : d' ≠ [] := by intro h0; have := h.2.2.1; rw [h0] at this; have := h.2.1; simp at *; omega
      exact ⟨x, by simp, h.2.1, h.2.2.1, h.2.2.2.1, nrows_of_rect h.2.2.2.1 hne⟩
    · obtain ⟨y, hy, hh⟩ := shapesOK_mem os ds sh h.2.2.2.2 d' hd'
      exact ⟨y, by simp [hy], hh⟩
  | [], [], _ :: _, h => by simp [ShapesOK] at h
  | [], _ :: _, _, h => by simp [ShapesOK] at h
  | _ :: _, [], _, h => by simp [ShapesOK] at h
  | _ :: _, _ :: _, [], h => by simp [ShapesOK] at h

theorem shapesOK_sum : ∀ (os : List Obj) (ds : List Data) (sh : List (Nat × Nat)), ShapesOK os ds sh →
    (ds.map nrows).sum = (sh.map (·.1)).sum ∧ ds.flatten.length = (sh.map (·.2)).sum ∧ ds.length = sh.length
  | [], [], [], _ => by simp
  | o :: os, d :: ds, x :: sh, h => by
    have ih := shapesOK_sum os ds sh h.2.2.2.2
    obtain ⟨y, _, _, _, _, hn⟩ := shapesOK_mem _ _ _ h d (by simp)
    have hne : d ≠ [] := by intro h0; have := h.2.2.1; rw [h0] at this; have := h.2.1; simp at *; omega
    have hn : nrows d = x.1 := nrows_of_rect h.2.2.2.1 hne
    simp [hn, ih.1, ih.2.1, ih.2.2, h.2.2.1]
  | [], [], _ :: _, h => by simp [ShapesOK] at h
  | [], _ :: _, _, h => by simp [ShapesOK] at h
  | _ :: _, [], _, h => by simp [ShapesOK] at h
  | _ :: _, _ :: _, [], h => by simp [ShapesOK] at h

theorem shapesOK_mesh : ∀ (os : List Obj) (ds : List Data) (sh : List (Nat × Nat)), ShapesOK os ds sh →
    (∀ x ∈ sh, x.2 = 1) → prodLen ds.flatten = (sh.map (·.1)).foldr (· * ·) 1
  | [], [], [], _, _ => by simp [prodLen]
  | o :: os, d :: ds, x :: sh, h, h1 => by
    have ih := shapesOK_mesh os ds sh h.2.2.2.2 (fun y hy => h1 y (by simp [hy]))
    have hl : d.length = 1 := by rw [h.2.2.1]; exact h1 x (by simp)
    match d, hl, h with
    | [c], _, h =>
      have hc : c.length = x.1 := h.2.2.2.1 c (by simp)
      simp [prodLen, ih, hc]
  | [], [], _ :: _, h, _ => by simp [ShapesOK] at h
  | [], _ :: _, _, h, _ => by simp [ShapesOK] at h
  | _ :: _, [], _, h, _ => by simp [ShapesOK] at h
  | _ :: _, _ :: _, [], h, _ => by simp [ShapesOK] at h

theorem sizeAt_const (sizes : List Nat) (s k : Nat) (hne : sizes.isEmpty = false)
    (h : sizes.all (· == s) = true) : sizeAt sizes k = s := by
  have hlen : 0 < sizes.length := by cases sizes <;> simp_all
  have hk : k % sizes.length < sizes.length := Nat.mod_lt _ hlen
  simp only [sizeAt, List.getD_eq_getElem?_getD, List.getElem?_eq_getElem hk, Option.getD_some]
  have := List.all_eq_true.mp h _ (List.getElem_mem hk)
  simpa using this

theorem keep_all_true (c0 c : List Val) (h : c.length = c0.length) : keep (c0.map (fun _ => true)) c = c := by
  induction c0 generalizing c with
  | nil => cases c <;> simp_all [keep]
  | cons x xs ih =>
    cases c with
    | nil => simp at h
    | cons y ys => simp [keep, ih ys (by simpa using h)]

/-- what `size_eq_rows` establishes for one call -/
def Good (o : Obj) (w : World) (n d : Nat) : Prop :=
  o.size = n ∧ 1 ≤ d ∧ (run o w).1.length = d ∧ Rect (run o w).1 n ∧ shapeOf (run o w).2.1 = some (n, d) ∧
  (run o w).2.1.size = n

def GoodL (gs : List Obj) (w : World) (sh : List (Nat × Nat)) : Prop :=
  ShapesOK gs (runList gs w).1 sh ∧ shapesOf (runList gs w).2.1 = some sh

theorem good_leaf (s id dims : Nat) (sizes : List Nat) (c ctr : Nat) (w : World) (n d : Nat)
    (h : shapeOf (.leaf s id dims sizes c ctr) = some (n, d)) : Good (.leaf s id dims sizes c ctr) w n d := by
  simp only [shapeOf] at h
  split at h
  · rename_i hc
    simp only [Bool.and_eq_true, decide_eq_true_eq, Bool.not_eq_true'] at hc
    cases h
    refine ⟨rfl, hc.1.1, by simp [run, leafData], ?_, ?_, rfl⟩
    · intro col hcol
      simp only [run, leafData, List.mem_map, List.mem_range] at hcol
      obtain ⟨j, _, rfl⟩ := hcol
      simp [sizeAt_const sizes s c hc.1.2 hc.2]
    · simp [run, shapeOf, hc]
  · cases h

theorem good_concat (s : Nat) (gs : List Obj) (w : World) (n0 d0 : Nat) (rest : List (Nat × Nat))
    (hg : GoodL gs w ((n0, d0) :: rest)) (h1 : rest.all (fun x => x.2 == d0) = true)
    (h2 : s = n0 + (rest.map (·.1)).sum) : Good (.concat s gs) w s d0 := by
  obtain ⟨hok, hsh⟩ := hg
  have hall : ∀ x ∈ (n0, d0) :: rest, x.2 = d0 := by
    intro x hx
    rcases List.mem_cons.mp hx with rfl | hx
    · rfl
    · simpa using List.all_eq_true.mp h1 x hx
  have hk : ∀ dd ∈ (runList gs w).1, dd.length = d0 := by
    intro dd hdd
    obtain ⟨x, hx, _, hl, _, _⟩ := shapesOK_mem _ _ _ hok dd hdd
    rw [hl, hall x hx]
  have hne : (runList gs w).1 ≠ [] := by
    intro h0; have := (shapesOK_sum _ _ _ hok).2.2; rw [h0] at this; simp at this
  have hd1 : 1 ≤ d0 := by
    obtain ⟨dd, hdd⟩ := List.exists_mem_of_ne_nil _ hne
    obtain ⟨x, hx, h1x, _, _, _⟩ := shapesOK_mem _ _ _ hok dd hdd
    rw [hall x hx] at h1x; exact h1x
  have hrows := concat_rows (runList gs w).1 d0 hd1 hne hk (by
    intro dd hdd
    obtain ⟨x, _, _, _, hr, hn⟩ := shapesOK_mem _ _ _ hok dd hdd
    rw [hn]; exact hr)
  have hsum : ((runList gs w).1.map nrows).sum = s := by
    rw [(shapesOK_sum _ _ _ hok).1, h2]; simp
  refine ⟨rfl, hd1, ?_, ?_, ?_, rfl⟩
  · simp only [run, concatOutcome_same _ d0 hk]
    exact catCols_length _ d0 hne hk
  · simp only [run, concatOutcome_same _ d0 hk]
    rw [← hsum]; exact hrows.2
  · simp only [run, shapeOf, hsh, h1, h2]
    simp

theorem good_ensemble (s : Nat) (gs : List Obj) (w : World) (n0 d0 : Nat) (rest : List (Nat × Nat))
    (hg : GoodL gs w ((n0, d0) :: rest)) (h1 : rest.all (fun x => x.1 == n0) = true)
    (h2 : s = n0) : Good (.ensemble s gs) w s (d0 + (rest.map (·.2)).sum) := by
  obtain ⟨hok, hsh⟩ := hg
  subst h2
  have hall : ∀ x ∈ (s, d0) :: rest, x.1 = s := by
    intro x hx
    rcases List.mem_cons.mp hx with rfl | hx
    · rfl
    · simpa using List.all_eq_true.mp h1 x hx
  have hd0 : 1 ≤ d0 := by
    match gs, (runList gs w).1, hok with
    | _ :: _, _ :: _, hok => exact hok.2.1
  refine ⟨rfl, by omega, ?_, ?_, ?_, rfl⟩
  · simp only [run]; rw [(shapesOK_sum _ _ _ hok).2.1]; simp
  · simp only [run]
    apply rect_flatten
    intro dd hdd
    obtain ⟨x, hx, _, _, hr, _⟩ := shapesOK_mem _ _ _ hok dd hdd
    rw [← hall x hx]; exact hr
  · simp only [run, shapeOf, hsh, h1]
    simp

theorem good_mesh (s : Nat) (gs : List Obj) (w : World) (n0 d0 : Nat) (rest : List (Nat × Nat))
    (hg : GoodL gs w ((n0, d0) :: rest)) (h0 : d0 = 1) (h1 : rest.all (fun x => x.2 == 1) = true)
    (h2 : s = n0 * (rest.map (·.1)).foldr (· * ·) 1) : Good (.mesh s gs) w s (rest.length + 1) := by
  obtain ⟨hok, hsh⟩ := hg
  subst h0
  have hall : ∀ x ∈ (n0, 1) :: rest, x.2 = 1 := by
    intro x hx
    rcases List.mem_cons.mp hx with rfl | hx
    · rfl
    · simpa using List.all_eq_true.mp h1 x hx
  have hlen : (runList gs w).1.flatten.length = rest.length + 1 := by
    rw [(shapesOK_sum _ _ _ hok).2.1]
    have : ∀ (l : List (Nat × Nat)), (∀ x ∈ l, x.2 = 1) → (l.map (·.2)).sum = l.length := by
      intro l hl
      induction l with
      | nil => rfl
      | cons y ys ih => simp [hl y (by simp), ih (fun z hz => hl z (by simp [hz]))]; omega
    rw [this _ hall]; simp
  have hprod : prodLen (runList gs w).1.flatten = s := by
    rw [shapesOK_mesh _ _ _ hok hall, h2]; simp
  refine ⟨rfl, by omega, ?_, ?_, ?_, rfl⟩
  · simp only [run, meshgrid_length, hlen]
  · simp only [run]; rw [← hprod]; exact rect_meshgrid _
  · simp only [run, shapeOf, hsh, h1, h2]
    simp

theorem good_transform (s : Nat) (g : Obj) (t : Trans) (w : World) (n0 d0 n d : Nat)
    (hg : Good g w n0 d0) (h : shapeOf (.transform s g t) = some (n, d)) (hs : shapeOf g = some (n0, d0)) :
    Good (.transform s g t) w n d := by
  obtain ⟨_, hd1, hlen, hrect, hsh', _⟩ := hg
  simp only [shapeOf, hs] at h
  split at h
  · rename_i hsn
    have hsn : s = n0 := by simpa using hsn
    subst hsn
    cases t with
    | perDim ms =>
      simp only at h
      split at h
      · rename_i hm
        cases h
        have hm : 1 ≤ min ms.length d0 := by simpa using hm
        refine ⟨rfl, hm, by simp [run, Trans.app, hlen], ?_, ?_, rfl⟩
        · intro c hc
          simp only [run, Trans.app] at hc
          obtain ⟨i, hi, rfl⟩ := List.getElem_of_mem hc
          simp only [List.getElem_zipWith, List.length_map]
          exact hrect _ (List.getElem_mem _)
        · simp only [run, shapeOf, hsh']
          simp [hm]
      · cases h
    | rev =>
      cases h
      refine ⟨rfl, hd1, by simp [run, Trans.app, hlen], ?_, by simp [run, shapeOf, hsh'], rfl⟩
      intro c hc
      simp only [run, Trans.app, List.mem_reverse] at hc
      exact hrect c hc
    | affAll f =>
      cases h
      refine ⟨rfl, hd1, by simp [run, Trans.app, hlen], ?_, by simp [run, shapeOf, hsh'], rfl⟩
      intro c hc
      simp only [run, Trans.app, List.mem_map] at hc
      obtain ⟨c', hc', rfl⟩ := hc
      simpa using hrect c' hc'
  · cases h

theorem good_filter (s : Nat) (g : Obj) (p : Pred) (upd : Bool) (w : World) (n0 d0 n d : Nat)
    (hg : Good g w n0 d0) (h : shapeOf (.filter s g p upd) = some (n, d)) (hs : shapeOf g = some (n0, d0)) :
    Good (.filter s g p upd) w n d := by
  obtain ⟨_, hd1, hlen, hrect, hsh', _⟩ := hg
  simp only [shapeOf, hs] at h
  cases p with
  | all =>
    simp only at h
    split at h
    · rename_i hsn
      have hsn : s = n0 := by simpa using hsn
      subst hsn
      cases h
      have hne : (run g w).1 ≠ [] := by intro h0; rw [h0] at hlen; simp at hlen; omega
      have hout : (run g w).1.map (keep (((run g w).1.headD []).map Pred.all.test)) = (run g w).1 := by
        obtain ⟨c0, cs, hc⟩ := List.exists_cons_of_ne_nil hne
        rw [hc] at hrect ⊢
        simp only [List.headD_cons]
        have : (c0.map Pred.all.test) = c0.map (fun _ => true) := by simp [Pred.test]
        rw [this]
        calc List.map (keep (c0.map fun _ => true)) (c0 :: cs) = List.map id (c0 :: cs) := by
              apply List.map_congr_left
              intro c hc'
              exact keep_all_true c0 c (by rw [hrect c hc', hrect c0 (by simp)])
          _ = c0 :: cs := by simp
      have hnr : nrows (run g w).1 = s := nrows_of_rect hrect hne
      refine ⟨rfl, hd1, ?_, ?_, ?_, ?_⟩
      · simp only [run, hout, hlen]
      · simp only [run, hout]; exact hrect
      · simp only [run, hout, hnr, shapeOf, hsh']
        cases upd <;> simp
      · simp only [run, hout, hnr, Obj.size]
        cases upd <;> simp
    · cases h
  | modEq m r => simp at h
  | lt c => simp at h

theorem good_resample (s : Nat) (g : Obj) (repl : Bool) (w : World) (n0 d0 n d : Nat)
    (hg : Good g w n0 d0) (h : shapeOf (.resample s g repl) = some (n, d)) (hs : shapeOf g = some (n0, d0))
    (hok : okRun (.resample s g repl) w = true) : Good (.resample s g repl) w n d := by
  obtain ⟨_, hd1, hlen, hrect, hsh', _⟩ := hg
  have key : (repl = true → 1 ≤ n0) ∧ (repl = false → s ≤ n0) ∧ n = s ∧ d = d0 := by
    cases repl
    · simp only [shapeOf, hs, Bool.false_eq_true, if_false] at h
      split at h
      · rename_i hc; cases h; exact ⟨by simp, fun _ => hc, rfl, rfl⟩
      · cases h
    · simp only [shapeOf, hs, if_true] at h
      split at h
      · rename_i hc; cases h; exact ⟨fun _ => hc, by simp, rfl, rfl⟩
      · cases h
  obtain ⟨hc1, hc2, rfl, rfl⟩ := key
  have hne : (run g w).1 ≠ [] := by intro h0; rw [h0] at hlen; simp at hlen; omega
  have hnr : nrows (run g w).1 = n0 := nrows_of_rect hrect hne
  simp only [okRun, Bool.and_eq_true, Bool.not_eq_true'] at hok
  obtain ⟨⟨⟨_, hnz⟩, hval⟩, _⟩ := hok
  have hix := ixUsed_valid _ _ _ _ hval
  have hlenix : (ixUsed ((run g w).2.2.idx.headD []) n repl).length = n := by
    cases repl
    · have := (hix.2 rfl).2
      rw [this, hnr]
      have := hc2 rfl
      omega
    · simp only [ixValid, Bool.and_eq_true, if_true, beq_iff_eq] at hval
      simpa [ixUsed] using hval.2
  refine ⟨rfl, hd1, ?_, ?_, ?_, ?_⟩
  · simp only [run, hnz, Bool.false_eq_true, if_false, List.length_map, hlen]
  · simp only [run, hnz, Bool.false_eq_true, if_false]
    intro c hc
    obtain ⟨c', _, rfl⟩ := List.mem_map.mp hc
    simp only [gather, List.length_map]; exact hlenix
  · simp only [run, hnz, Bool.false_eq_true, if_false, shapeOf, hsh']
    cases repl
    · simp [hc2 rfl]
    · simp [hc1 rfl]
  · simp only [run, hnz, Bool.false_eq_true, if_false, Obj.size]

theorem good_rect_data (s : Nat) (ex : Data) (n d : Nat)
    (h : (if (1 ≤ ex.length && isRect s ex.length ex) = true then some (s, ex.length) else none) = some (n, d)) :
    s = n ∧ ex.length = d ∧ 1 ≤ d ∧ Rect ex n := by
  split at h
  · rename_i hc
    cases h
    simp only [isRect, Bool.and_eq_true, decide_eq_true_eq, beq_iff_eq, List.all_eq_true, true_and] at hc
    exact ⟨rfl, rfl, hc.1, fun c hc' => by simpa using hc.2 c hc'⟩
  · cases h

theorem good_sampler (s : Nat) (g : Obj) (w : World) (n0 d0 n d : Nat)
    (hg : Good g w n0 d0) (h : shapeOf (.sampler s g) = some (n, d)) (hs : shapeOf g = some (n0, d0)) :
    Good (.sampler s g) w n d := by
  obtain ⟨_, hd1, hlen, hrect, hsh', _⟩ := hg
  simp only [shapeOf, hs] at h
  split at h
  · rename_i hsn
    have hsn : s = n0 := by simpa using hsn
    subst hsn
    cases h
    exact ⟨rfl, hd1, by simp [run, hlen], by simpa [run] using hrect, by simp [run, shapeOf, hsh'], rfl⟩
  · cases h

mutual
/-- one call of a `SizeStable` node: `d` dimensions of exactly `n = .size` rows, and the node stays `SizeStable`
with the same shape -/
theorem shape_run : ∀ (o : Obj) (w : World) (n d : Nat), shapeOf o = some (n, d) → okRun o w = true → Good o w n d
  | .leaf s id dims sizes c ctr, w, n, d, h, _ => good_leaf s id dims sizes c ctr w n d h
  | .concat s gs, w, n, d, h, hok => by
    simp only [shapeOf] at h
    split at h
    · rename_i n0 d0 rest hsh
      split at h
      · rename_i hc
        have hh : s = n ∧ d0 = d := by simpa using h
        rw [← hh.1, ← hh.2]
        simp only [Bool.and_eq_true, beq_iff_eq] at hc
        simp only [okRun, Bool.and_eq_true] at hok
        exact good_concat s gs w n0 d0 rest (shapes_runList gs w _ hsh hok.1) hc.1 hc.2
      · cases h
    · cases h
  | .ensemble s gs, w, n, d, h, hok => by
    simp only [shapeOf] at h
    split at h
    · rename_i n0 d0 rest hsh
      split at h
      · rename_i hc
        have hh : s = n ∧ d0 + (rest.map (·.2)).sum = d := by simpa using h
        rw [← hh.1, ← hh.2]
        simp only [Bool.and_eq_true, beq_iff_eq] at hc
        simp only [okRun, Bool.and_eq_true] at hok
        exact good_ensemble s gs w n0 d0 rest (shapes_runList gs w _ hsh hok.1) hc.1 hc.2
      · cases h
    · cases h
  | .mesh s gs, w, n, d, h, hok => by
    simp only [shapeOf] at h
    split at h
    · rename_i n0 d0 rest hsh
      split at h
      · rename_i hc
        have hh : s = n ∧ rest.length + 1 = d := by simpa using h
        rw [← hh.1, ← hh.2]
        simp only [Bool.and_eq_true, beq_iff_eq] at hc
        simp only [okRun, Bool.and_eq_true] at hok
        exact good_mesh s gs w n0 d0 rest (shapes_runList gs w _ hsh hok.1) hc.1.1 hc.1.2 hc.2
      · cases h
    · cases h
  | .transform s g t, w, n, d, h, hok => by
    cases hs : shapeOf g with
    | none => simp [shapeOf, hs] at h
    | some x =>
      obtain ⟨n0, d0⟩ := x
      simp only [okRun] at hok
      exact good_transform s g t w n0 d0 n d (shape_run g w n0 d0 hs hok) h hs
  | .filter s g p upd, w, n, d, h, hok => by
    cases hs : shapeOf g with
    | none => simp [shapeOf, hs] at h
    | some x =>
      obtain ⟨n0, d0⟩ := x
      simp only [okRun, Bool.and_eq_true] at hok
      exact good_filter s g p upd w n0 d0 n d (shape_run g w n0 d0 hs hok.1) h hs
  | .resample s g repl, w, n, d, h, hok => by
    cases hs : shapeOf g with
    | none => simp [shapeOf, hs] at h
    | some x =>
      obtain ⟨n0, d0⟩ := x
      have hok' := hok
      simp only [okRun, Bool.and_eq_true] at hok'
      exact good_resample s g repl w n0 d0 n d (shape_run g w n0 d0 hs hok'.1.1.1) h hs hok
  | .static s g ex, w, n, d, h, _ => by
    simp only [shapeOf] at h
    obtain ⟨h1, h2, h3, h4⟩ := good_rect_data s ex n d h
    subst h1
    exact ⟨rfl, h3, by simpa [run] using h2, by simpa [run] using h4, by simpa [run, shapeOf] using h, rfl⟩
  | .predefined s xs, w, n, d, h, _ => by
    simp only [shapeOf] at h
    obtain ⟨h1, h2, h3, h4⟩ := good_rect_data s xs n d h
    subst h1
    exact ⟨rfl, h3, by simpa [run] using h2, by simpa [run] using h4, by simpa [run, shapeOf] using h, rfl⟩
  | .sampler s g, w, n, d, h, hok => by
    cases hs : shapeOf g with
    | none => simp [shapeOf, hs] at h
    | some x =>
      obtain ⟨n0, d0⟩ := x
      simp only [okRun] at hok
      exact good_sampler s g w n0 d0 n d (shape_run g w n0 d0 hs hok) h hs
theorem shapes_runList : ∀ (gs : List Obj) (w : World) (sh : List (Nat × Nat)),
    shapesOf gs = some sh → okRunList gs w = true → GoodL gs w sh
  | [], w, sh, h, _ => by
    simp only [shapesOf] at h
    cases h
    exact ⟨by simp [runList, ShapesOK], by simp [runList, shapesOf]⟩
  | g :: gs, w, sh, h, hok => by
    simp only [shapesOf] at h
    cases hs : shapeOf g with
    | none => simp [hs] at h
    | some x =>
      cases hss : shapesOf gs with
      | none => simp [hs, hss] at h
      | some xs =>
        simp only [hs, hss] at h
        cases h
        simp only [okRunList, Bool.and_eq_true] at hok
        obtain ⟨n0, d0⟩ := x
        have h1 := shape_run g w n0 d0 hs hok.1
        have h2 := shapes_runList gs (run g w).2.2 xs hss hok.2
        obtain ⟨a1, a2, a3, a4, a5, _⟩ := h1
        exact ⟨⟨a1, a2, a3, a4, h2.1⟩, by simp [runList, shapesOf, a5, h2.2]⟩
end

/-- **size bookkeeping.**  For a `SizeStable` node (no size-changing FilterGenerator — nor any other source of a
row count that differs from the recorded `.size` — at or below it) whose call meets the run-time preconditions:
the call returns `d ≥ 1` dimensions, every one with exactly `.size` rows; the size is unchanged afterwards and the
node is still `SizeStable`. -/
theorem size_eq_rows (o : Obj) (w : World) (hs : SizeStable o) (hok : okRun o w = true) :
    nrows (run o w).1 = o.size ∧ (∀ c ∈ (run o w).1, c.length = o.size) ∧
    (run o w).2.1.size = o.size ∧ SizeStable (run o w).2.1 := by
  unfold SizeStable at hs
  cases h : shapeOf o with
  | none => simp [h] at hs
  | some x =>
    obtain ⟨n, d⟩ := x
    obtain ⟨h1, h2, h3, h4, h5, h6⟩ := shape_run o w n d h hok
    have hne : (run o w).1 ≠ [] := by intro h0; rw [h0] at h3; simp at h3; omega
    refine ⟨by rw [nrows_of_rect h4 hne, h1], by rw [h1]; exact h4, by rw [h6, h1], ?_⟩
    unfold SizeStable; simp [h5]

/-- several calls: every call of a `SizeStable` node returns `.size` rows and reports the same `.size` -/
def okCalls : Nat → Obj → World → Bool
  | 0, _, _ => true
  | k + 1, o, w => okRun o w && okCalls k (run o w).2.1 (run o w).2.2

theorem size_eq_rows_calls : ∀ (k : Nat) (o : Obj) (w : World), SizeStable o → okCalls k o w = true →
    ∀ x ∈ (calls k o w).1, nrows x.1 = o.size ∧ x.2.2 = o.size
  | 0, _, _, _, _ => by simp [calls]
  | k + 1, o, w, hs, hok => by
    simp only [okCalls, Bool.and_eq_true] at hok
    obtain ⟨h1, _, h3, h4⟩ := size_eq_rows o w hs hok.1
    have ih := size_eq_rows_calls k _ _ h4 hok.2
    simp only [calls]
    split
    · simp
    · intro x hx
      rcases List.mem_cons.mp hx with rfl | hx
      · exact ⟨h1, h3⟩
      · have := ih x hx
        rw [h3] at this
        exact this

/-! ### the hypothesis is needed: stale `.size` of composites over a size-changing FilterGenerator (known finding) -/

def g8 (id : Nat) : GenExpr := .leaf id 1 [8]
/-- `FilterGenerator(g8, keep every second point)` -/
def fg8 : GenExpr := .filter (g8 1) (.modEq 20 0) none true

/-- `(root.size after construction, rows of the first call, root.size after the call, SizeStable?, okRun?)` -/
def sizeAndRows (e : GenExpr) : Option (Nat × Nat × Nat × Bool × Bool) :=
  match buildTop e { idx := [] } with
  | .ok (o, w) => some (o.size, nrows (run o w).1, (run o w).2.1.size, decide (SizeStable o), okRun o w)
  | .error _ => none

/-- `ConcatGenerator(Filter(g8), g8)`: `.size = 16`, 12 rows returned, before and after the call -/
theorem stale_concat_over_filter : sizeAndRows (.concat [fg8, g8 2]) = some (16, 12, 16, false, true) := by decide
/-- `MeshGenerator(Filter(g8), g8)`: `.size = 64`, 32 rows -/
theorem stale_mesh_over_filter : sizeAndRows (.mesh [fg8, g8 2]) = some (64, 32, 64, false, true) := by decide
theorem stale_static_over_filter : sizeAndRows (.static fg8) = some (8, 4, 8, false, true) := by decide
theorem stale_transform_over_filter :
    sizeAndRows (.transform fg8 (.perDim [some ⟨2, 1⟩])) = some (8, 4, 8, false, true) := by decide
theorem stale_sampler_over_filter : sizeAndRows (.sampler fg8) = some (8, 4, 8, false, true) := by decide

/-- the negation of `size_eq_rows` without `SizeStable`: some constructed object whose call meets all run-time
preconditions returns a number of rows different from its `.size` -/
theorem size_eq_rows_fails_without_stable :
    ¬ (∀ (o : Obj) (w : World), okRun o w = true → nrows (run o w).1 = o.size) := by
  intro h
  have := h (mkConcat [.filter 8 (.leaf 8 1 1 [8] 0 0) (.modEq 20 0) true, .leaf 8 2 1 [8] 0 0]) { idx := [] }
    (by decide)
  revert this
  decide

/-- the filter itself is fine: after its draw its own `.size` is the number of rows kept (4) -/
example : sizeAndRows fg8 = some (8, 4, 4, false, true) := by decide
/-- `EnsembleGenerator(Filter(g8), g8)` passes the constructor's equal-size check and returns columns of 4 and 8
rows: the precondition "children return equally many rows" (`okRun`) is false — not a finding -/
example : (match buildTop (.ensemble [fg8, g8 2]) { idx := [] } with
    | .ok (o, w) => some ((run o w).1.map List.length, okRun o w)
    | .error _ => none) = some ([4, 8], false) := by decide
/-- non-vacuity of `size_eq_rows`: a depth-3 tree with mesh, ensemble, transform, static and resample is
`SizeStable` and meets the preconditions -/
example : (match buildTop (.resample (.ensemble [.mesh [g8 1, .leaf 2 1 [3]],
      .static (.transform (.leaf 3 2 [24]) .rev)]) (some 5) true) { idx := [[0, 5, 23, 7, 7]] } with
    | .ok (o, w) => some (o.size, (run o w).1.map List.length, decide (SizeStable o), okRun o w)
    | .error _ => none) = some (5, [5, 5, 5, 5], true, true) := by decide

/-! ### rows stay paired: every returned row is a tuple of whole leaf points -/

/-- the `p`-th point of spy leaf `id`: all its coordinates -/
def leafRow (id dims p : Nat) : List Val := (List.range dims).map (fun j => val id p j)

mutual
/-- `Paired o r`: `r` is a row the node `o` may return — built from WHOLE rows of its sub-generators only:
a leaf point; a row of one concat child; rows of all ensemble / mesh children side by side; the transform of a
row; a row of the filtered / resampled child; a point captured by Static at construction; a predefined point. -/
def Paired : Obj → List Val → Prop
  | .leaf _ id dims _ _ _, r => ∃ p, r = leafRow id dims p
  | .concat _ gs, r => PairedAny gs r
  | .ensemble _ gs, r => PairedCat gs r
  | .mesh _ gs, r => PairedCat gs r
  | .transform _ g t, r => ∃ r', Paired g r' ∧ r = appRow t r'
  | .filter _ g _ _, r => Paired g r
  | .resample _ g _, r => Paired g r
  | .static _ _ ex, r => r ∈ rowsOf ex
  | .predefined _ xs, r => r ∈ rowsOf xs
  | .sampler _ g, r => Paired g r
def PairedAny : List Obj → List Val → Prop
  | [], _ => False
  | g :: gs, r => Paired g r ∨ PairedAny gs r
def PairedCat : List Obj → List Val → Prop
  | [], r => r = []
  | g :: gs, r => ∃ r1 r2, r = r1 ++ r2 ∧ Paired g r1 ∧ PairedCat gs r2
end

mutual
/-- stored point sets (Static's captured examples, Predefined's points) are rectangular -/
def RectOK : Obj → Prop
  | .leaf .. => True
  | .concat _ gs => RectOKL gs
  | .ensemble _ gs => RectOKL gs
  | .mesh _ gs => RectOKL gs
  | .transform _ g _ => RectOK g
  | .filter _ g _ _ => RectOK g
  | .resample _ g _ => RectOK g
  | .static _ _ ex => Rect ex (nrows ex)
  | .predefined _ xs => Rect xs (nrows xs)
  | .sampler _ g => RectOK g
def RectOKL : List Obj → Prop
  | [] => True
  | g :: gs => RectOK g ∧ RectOKL gs
end

def PairedL : List Obj → List Data → Prop
  | [], [] => True
  | g :: gs, d :: ds => Rect d (nrows d) ∧ (∀ r ∈ rowsOf d, Paired g r) ∧ PairedL gs ds
  | _, _ => False

theorem rowsOf_nil : rowsOf [] = [] := rfl

theorem rowAt_leafData (id dims ctr n i : Nat) (hi : i < n) :
    rowAt (leafData id dims ctr n) i = leafRow id dims (ctr + i) := by
  simp only [rowAt, leafData, leafRow, List.map_map]
  apply List.map_congr_left
  intro j _
  simp [List.getD_eq_getElem?_getD, hi]

theorem pairedL_rect : ∀ (gs : List Obj) (ds : List Data), PairedL gs ds → ∀ d ∈ ds, Rect d (nrows d)
  | [], [], _ => by simp
  | g :: gs, d :: ds, h => by
    intro d' hd'
    rcases List.mem_cons.mp hd' with rfl | hd'
    · exact h.1
    · exact pairedL_rect gs ds h.2.2 d' hd'
  | [], _ :: _, h => by simp [PairedL] at h
  | _ :: _, [], h => by simp [PairedL] at h

theorem pairedL_any : ∀ (gs : List Obj) (ds : List Data), PairedL gs ds → ∀ r ∈ ds.flatMap rowsOf, PairedAny gs r
  | [], [], _ => by simp
  | g :: gs, d :: ds, h => by
    intro r hr
    simp only [List.flatMap_cons, List.mem_append] at hr
    rcases hr with hr | hr
    · exact Or.inl (h.2.1 r hr)
    · exact Or.inr (pairedL_any gs ds h.2.2 r hr)
  | [], _ :: _, h => by simp [PairedL] at h
  | _ :: _, [], h => by simp [PairedL] at h

theorem pairedL_cat (i : Nat) : ∀ (gs : List Obj) (ds : List Data), PairedL gs ds → (∀ d ∈ ds, i < nrows d) →
    PairedCat gs ((ds.map (fun d => rowAt d i)).flatten)
  | [], [], _, _ => by simp [PairedCat]
  | g :: gs, d :: ds, h, hi => by
    refine ⟨rowAt d i, ((ds.map (fun d => rowAt d i)).flatten), by simp, ?_, ?_⟩
    · exact h.2.1 _ (rowAt_mem_rowsOf (hi d (by simp)))
    · exact pairedL_cat i gs ds h.2.2 (fun d' hd' => hi d' (by simp [hd']))
  | [], _ :: _, h, _ => by simp [PairedL] at h
  | _ :: _, [], h, _ => by simp [PairedL] at h

theorem pairedL_mesh : ∀ (gs : List Obj) (ds : List Data) (r : List Val), PairedL gs ds →
    (∀ d ∈ ds, d.length = 1) → Picks r ds.flatten → PairedCat gs r
  | [], [], r, _, _, hp => by
    cases r with
    | nil => simp [PairedCat]
    | cons x t => simp [Picks] at hp
  | g :: gs, d :: ds, r, h, h1, hp => by
    have hl := h1 d (by simp)
    match d, hl, h, hp with
    | [c], _, h, hp =>
      cases r with
      | nil => simp [Picks] at hp
      | cons x t =>
        simp only [List.flatten_cons, List.singleton_append, Picks] at hp
        refine ⟨[x], t, by simp, ?_, pairedL_mesh gs ds t h.2.2 (fun d' hd' => h1 d' (by simp [hd'])) hp.2⟩
        apply h.2.1
        obtain ⟨k, hk, rfl⟩ := List.getElem_of_mem hp.1
        have : [c[k]] = rowAt [c] k := by simp [rowAt, List.getD_eq_getElem?_getD, List.getElem?_eq_getElem hk]
        rw [this]
        exact rowAt_mem_rowsOf (by simpa [nrows] using hk)
  | [], _ :: _, _, h, _, _ => by simp [PairedL] at h
  | _ :: _, [], _, h, _, _ => by simp [PairedL] at h

theorem sameLen_spec {α} (l : List (List α)) (h : sameLen l = true) : ∀ c ∈ l, c.length = (l.headD []).length := by
  intro c hc
  simpa using List.all_eq_true.mp h c hc

theorem rect_trans_app (t : Trans) (d : Data) (n : Nat) (h : Rect d n) : Rect (t.app d) n := by
  cases t with
  | perDim ms =>
    intro c hc
    simp only [Trans.app] at hc
    obtain ⟨i, hi, rfl⟩ := List.getElem_of_mem hc
    simp only [List.getElem_zipWith, List.length_map]
    exact h _ (List.getElem_mem _)
  | rev => intro c hc; exact h c (by simpa [Trans.app] using hc)
  | affAll f =>
    intro c hc
    simp only [Trans.app, List.mem_map] at hc
    obtain ⟨c', hc', rfl⟩ := hc
    simpa using h c' hc'

/-- what `rows_stay_paired` establishes for one call -/
def PairedOut (o : Obj) (w : World) : Prop :=
  Rect (run o w).1 (nrows (run o w).1) ∧ (∀ r ∈ rowsOf (run o w).1, Paired o r) ∧ RectOK (run o w).2.1

theorem paired_concat (s : Nat) (gs : List Obj) (w : World) (hp : PairedL gs (runList gs w).1)
    (hr : RectOKL (runList gs w).2.1) (hsame : sameLen (runList gs w).1 = true) : PairedOut (.concat s gs) w := by
  have hk := sameLen_spec _ hsame
  generalize hkk : ((runList gs w).1.headD []).length = k at hk
  unfold PairedOut
  simp only [run, concatOutcome_same _ k hk]
  refine ⟨?_, ?_, by simpa [RectOK] using hr⟩
  all_goals
    by_cases hne : (runList gs w).1 = []
    · simp [hne, catCols, Rect, rowsOf_nil]
    by_cases hk0 : k = 0
    · have : catCols (runList gs w).1 = [] :=
        List.eq_nil_of_length_eq_zero (by rw [catCols_length _ k hne hk, hk0])
      simp [this, Rect, rowsOf_nil]
    have hrows := concat_rows (runList gs w).1 k (by omega) hne hk (pairedL_rect _ _ hp)
  · have hcne : catCols (runList gs w).1 ≠ [] := by
      intro h0; have := catCols_length _ k hne hk; rw [h0] at this; simp at this; omega
    rw [nrows_of_rect hrows.2 hcne]; exact hrows.2
  · intro r hr'
    rw [hrows.1] at hr'
    simpa [Paired] using pairedL_any _ _ hp r hr'

theorem paired_ensemble (s : Nat) (gs : List Obj) (w : World) (hp : PairedL gs (runList gs w).1)
    (hr : RectOKL (runList gs w).2.1) (hsame : sameLen ((runList gs w).1.map (fun d => d.headD [])) = true) :
    PairedOut (.ensemble s gs) w := by
  have hk := sameLen_spec _ hsame
  generalize hkk : (((runList gs w).1.map (fun d => d.headD [])).headD []).length = n at hk
  have hn : ∀ d ∈ (runList gs w).1, nrows d = n := by
    intro d hd; exact hk _ (List.mem_map.mpr ⟨d, hd, rfl⟩)
  have hrect : Rect (runList gs w).1.flatten n := by
    apply rect_flatten
    intro d hd
    rw [← hn d hd]; exact pairedL_rect _ _ hp d hd
  unfold PairedOut
  simp only [run]
  by_cases hne : (runList gs w).1.flatten = []
  · rw [hne]; exact ⟨by simp [Rect], by simp [rowsOf_nil], by simpa [RectOK] using hr⟩
  have hnr := nrows_of_rect hrect hne
  refine ⟨by rw [hnr]; exact hrect, ?_, by simpa [RectOK] using hr⟩
  intro r hr'
  simp only [rowsOf, hnr, List.mem_map, List.mem_range] at hr'
  obtain ⟨i, hi, rfl⟩ := hr'
  have : rowAt (runList gs w).1.flatten i = ((runList gs w).1.map (fun d => rowAt d i)).flatten := by
    simp [rowAt, List.map_flatten]
  rw [this]
  simpa [Paired] using pairedL_cat i _ _ hp (fun d hd => by rw [hn d hd]; exact hi)

theorem paired_mesh (s : Nat) (gs : List Obj) (w : World) (hp : PairedL gs (runList gs w).1)
    (hr : RectOKL (runList gs w).2.1) (h1 : (runList gs w).1.all (fun d => d.length == 1) = true) :
    PairedOut (.mesh s gs) w := by
  have h1' : ∀ d ∈ (runList gs w).1, d.length = 1 := by
    intro d hd; simpa using List.all_eq_true.mp h1 d hd
  unfold PairedOut
  simp only [run]
  by_cases hne : (runList gs w).1.flatten = []
  · rw [hne]; exact ⟨by simp [meshgrid, Rect], by simp [meshgrid, rowsOf_nil], by simpa [RectOK] using hr⟩
  have hm : meshgrid (runList gs w).1.flatten ≠ [] := by
    intro h; have := meshgrid_length (runList gs w).1.flatten; rw [h] at this
    exact hne (List.eq_nil_of_length_eq_zero this.symm)
  refine ⟨by rw [nrows_of_rect (rect_meshgrid _) hm]; exact rect_meshgrid _, ?_, by simpa [RectOK] using hr⟩
  intro r hr'
  rw [mesh_rows _ hne] at hr'
  simpa [Paired] using pairedL_mesh _ _ r hp h1' ((mem_combos _ r).mp hr')

theorem paired_transform (s : Nat) (g : Obj) (t : Trans) (w : World) (hg : PairedOut g w) :
    PairedOut (.transform s g t) w := by
  obtain ⟨hrect, hrows, hok⟩ := hg
  unfold PairedOut
  simp only [run]
  have hr2 := rect_trans_app t _ _ hrect
  by_cases hne : t.app (run g w).1 = []
  · rw [hne]; exact ⟨by simp [Rect], by simp [rowsOf_nil], by simpa [RectOK] using hok⟩
  have hnr := nrows_of_rect hr2 hne
  refine ⟨by rw [hnr]; exact hr2, ?_, by simpa [RectOK] using hok⟩
  intro r hr'
  simp only [rowsOf, hnr, List.mem_map, List.mem_range] at hr'
  obtain ⟨i, hi, rfl⟩ := hr'
  exact ⟨rowAt (run g w).1 i, hrows _ (rowAt_mem_rowsOf hi), transform_row t _ _ i hrect hi⟩

theorem paired_filter (s : Nat) (g : Obj) (p : Pred) (upd : Bool) (w : World) (hg : PairedOut g w)
    (hfit : maskFits (run g w).1 = true) : PairedOut (.filter s g p upd) w := by
  obtain ⟨hrect, hrows, hok⟩ := hg
  have hne : (run g w).1 ≠ [] := by
    intro h0; simp [maskFits, h0] at hfit
  have hf := filter_rows p _ _ hrect hne
  unfold PairedOut
  simp only [run]
  have hne' : (run g w).1.map (keep (((run g w).1.headD []).map p.test)) ≠ [] := by simpa using hne
  refine ⟨by rw [nrows_of_rect hf.2 hne']; exact hf.2, ?_, by simpa [RectOK] using hok⟩
  intro r hr'
  rw [hf.1] at hr'
  exact hrows r (List.mem_filter.mp hr').1

theorem paired_resample (s : Nat) (g : Obj) (repl : Bool) (w : World) (hg : PairedOut g w)
    (hnz : (repl && nrows (run g w).1 == 0) = false)
    (hval : ixValid ((run g w).2.2.idx.headD []) (nrows (run g w).1) s repl = true) :
    PairedOut (.resample s g repl) w := by
  obtain ⟨hrect, hrows, hok⟩ := hg
  unfold PairedOut
  simp only [run, hnz, Bool.false_eq_true, if_false]
  by_cases hne : (run g w).1 = []
  · rw [hne]; exact ⟨by simp [Rect], by simp [rowsOf_nil], by simpa [RectOK] using hok⟩
  have hix := (ixUsed_valid _ _ _ _ hval).1
  have hres := resample_rows _ _ _ hrect hne hix
  have hne' : (run g w).1.map (gather (ixUsed ((run g w).2.2.idx.headD []) s repl)) ≠ [] := by simpa using hne
  refine ⟨by rw [nrows_of_rect hres.2.2 hne']; exact hres.2.2, ?_, by simpa [RectOK] using hok⟩
  intro r hr'
  exact hrows r (hres.2.1 r hr')

mutual
theorem paired_run : ∀ (o : Obj) (w : World), RectOK o → okRun o w = true → PairedOut o w
  | .leaf s id dims sizes c ctr, w, _, _ => by
    refine ⟨?_, ?_, by simp [run, RectOK]⟩
    · intro col hcol
      cases dims with
      | zero => simp [run, leafData] at hcol
      | succ dd =>
        have h0 : nrows (run (.leaf s id (dd + 1) sizes c ctr) w).1 = sizeAt sizes c := by
          simp [run, leafData, nrows, List.range_succ_eq_map]
        rw [h0]
        simp only [run, leafData, List.mem_map, List.mem_range] at hcol
        obtain ⟨j, _, rfl⟩ := hcol
        simp
    · intro r hr
      cases dims with
      | zero => simp [run, leafData, rowsOf, nrows] at hr
      | succ dd =>
        have h0 : nrows (run (.leaf s id (dd + 1) sizes c ctr) w).1 = sizeAt sizes c := by
          simp [run, leafData, nrows, List.range_succ_eq_map]
        simp only [rowsOf, h0, List.mem_map, List.mem_range] at hr
        obtain ⟨i, hi, rfl⟩ := hr
        exact ⟨ctr + i, by simpa [run] using rowAt_leafData id (dd + 1) ctr _ i hi⟩
  | .concat s gs, w, hr, hok => by
    simp only [okRun, Bool.and_eq_true] at hok
    have := paired_runList gs w (by simpa [RectOK] using hr) hok.1
    exact paired_concat s gs w this.1 this.2 hok.2
  | .ensemble s gs, w, hr, hok => by
    simp only [okRun, Bool.and_eq_true] at hok
    have := paired_runList gs w (by simpa [RectOK] using hr) hok.1
    exact paired_ensemble s gs w this.1 this.2 hok.2
  | .mesh s gs, w, hr, hok => by
    simp only [okRun, Bool.and_eq_true] at hok
    have := paired_runList gs w (by simpa [RectOK] using hr) hok.1
    exact paired_mesh s gs w this.1 this.2 hok.2
  | .transform s g t, w, hr, hok => by
    simp only [okRun] at hok
    exact paired_transform s g t w (paired_run g w (by simpa [RectOK] using hr) hok)
  | .filter s g p upd, w, hr, hok => by
    simp only [okRun, Bool.and_eq_true] at hok
    exact paired_filter s g p upd w (paired_run g w (by simpa [RectOK] using hr) hok.1) hok.2
  | .resample s g repl, w, hr, hok => by
    simp only [okRun, Bool.and_eq_true, Bool.not_eq_true'] at hok
    exact paired_resample s g repl w (paired_run g w (by simpa [RectOK] using hr) hok.1.1.1) hok.1.1.2 hok.1.2
  | .static s g ex, w, hr, _ => by
    refine ⟨by simpa [run, RectOK] using hr, ?_, by simpa [run, RectOK] using hr⟩
    intro r hr'
    simpa [run, Paired] using hr'
  | .predefined s xs, w, hr, _ => by
    refine ⟨by simpa [run, RectOK] using hr, ?_, by simpa [run, RectOK] using hr⟩
    intro r hr'
    simpa [run, Paired] using hr'
  | .sampler s g, w, hr, hok => by
    simp only [okRun] at hok
    have := paired_run g w (by simpa [RectOK] using hr) hok
    exact ⟨by simpa [run] using this.1, by simpa [run, Paired] using this.2.1, by simpa [run, RectOK] using this.2.2⟩
theorem paired_runList : ∀ (gs : List Obj) (w : World), RectOKL gs → okRunList gs w = true →
    PairedL gs (runList gs w).1 ∧ RectOKL (runList gs w).2.1
  | [], w, _, _ => by simp [runList, PairedL, RectOKL]
  | g :: gs, w, hr, hok => by
    simp only [okRunList, Bool.and_eq_true] at hok
    simp only [RectOKL] at hr
    have h1 := paired_run g w hr.1 hok.1
    have h2 := paired_runList gs (run g w).2.2 hr.2 hok.2
    exact ⟨⟨h1.1, h1.2.1, h2.1⟩, ⟨h1.2.2, h2.2⟩⟩
end

/-- **rows stay paired.**  For every object tree whose stored point sets are rectangular and every call that
raises no exception and meets the callers' preconditions at every node (`okRun`: Concat children with equally many
dimensions, Ensemble children with equally many rows, Mesh children one-dimensional) — size-changing filters
allowed — the returned data are rectangular and EVERY returned row is `Paired`: a tuple of whole leaf points
(possibly mapped by the transforms).  The invariant is kept, so this holds for every later call as well. -/
theorem rows_stay_paired (o : Obj) (w : World) (hr : RectOK o) (hok : okRun o w = true) :
    (∀ c ∈ (run o w).1, c.length = nrows (run o w).1) ∧ (∀ r ∈ rowsOf (run o w).1, Paired o r) ∧
    RectOK (run o w).2.1 := paired_run o w hr hok

/-- **static captures paired points.**  `StaticGenerator.__init__` applied to a child `o`: the captured examples
are rectangular (so the new object satisfies `RectOK`) and each captured point is a `Paired` row of the child's
construction-time draw -/
theorem static_ctor_paired (o : Obj) (w : World) (hr : RectOK o) (hok : okRun o w = true) :
    RectOK (.static o.size (run o w).2.1 (run o w).1) ∧
    ∀ r, Paired (.static o.size (run o w).2.1 (run o w).1) r → Paired o r := by
  have h := paired_run o w hr hok
  exact ⟨by simpa [RectOK] using h.1, fun r hr' => h.2.1 r (by simpa [Paired] using hr')⟩

/-- **predefined points are rectangular** whenever the constructor accepts them -/
theorem predefined_ctor_rectOK (xs : Data) (o : Obj) (h : mkPredefined xs = .ok o) : RectOK o := by
  simp only [mkPredefined] at h
  split at h
  · rename_i hc
    cases h
    intro c hc'
    simpa using List.all_eq_true.mp hc c hc'
  · cases h

/-- **mesh, flattening, at construction.**  `MeshGenerator(MeshGenerator(a, b), c)` builds the same object as
`MeshGenerator(a, b, c)` (same construction effects, same sub-generators, same size), so all later calls agree -/
theorem mesh_flatten_build (a b c : GenExpr) (w : World) :
    build (.mesh [.mesh [a, b], c]) w = build (.mesh [a, b, c]) w := by
  simp only [build, buildList]
  cases build a w with
  | error e => rfl
  | ok r =>
    obtain ⟨oa, w1⟩ := r
    simp only []
    cases build b w1 with
    | error e => rfl
    | ok r2 =>
      obtain ⟨ob, w2⟩ := r2
      simp only [List.isEmpty_cons, Bool.false_eq_true, if_false]
      cases build c w2 with
      | error e => rfl
      | ok r3 =>
        obtain ⟨oc, w3⟩ := r3
        simp only [List.isEmpty_cons, Bool.false_eq_true, if_false]
        rw [mesh_flatten [oa, ob] [oc]]
        rfl

/-! ### non-vacuity: the hypotheses of the theorems above hold on concrete, non-trivial instances -/

/-- a mesh of a 2-point and a 3-point column: all six combinations once, row-major -/
example : rowsOf (meshgrid [[1, 2], [3, 4, 5]]) = [[1, 3], [1, 4], [1, 5], [2, 3], [2, 4], [2, 5]] := by decide
/-- `concat_rows` / `ensemble_row` / `filter_rows` / `resample_rows` hypotheses: rectangular 2-dimensional data -/
example : Rect [[1, 2, 3], [4, 5, 6]] 3 ∧ Rect [[7], [8]] (nrows [[7], [8]]) := by
  constructor <;> intro c hc <;> simp at hc <;> rcases hc with rfl | rfl <;> rfl
example : rowsOf (catCols [[[1, 2, 3], [4, 5, 6]], [[7], [8]]]) = [[1, 4], [2, 5], [3, 6], [7, 8]] := by decide
example : rowsOf ([[20, 21, 40], [4, 5, 6]].map (keep (([20, 21, 40] : List Val).map (Pred.modEq 20 0).test))) =
    [[20, 4], [40, 6]] := by decide
/-- `resample_distinct`: a recorded permutation accepted by the model, distinct source rows -/
example : ixValid [2, 0, 1] 3 2 false = true ∧ (ixUsed [2, 0, 1] 2 false).Nodup ∧
    (rowsOf [[1, 2, 3], [4, 5, 6]]).Nodup := by decide
/-- `rows_stay_paired`: a concat over a size-changing filter (NOT `SizeStable`) satisfies `RectOK` and `okRun` -/
def exPaired : Obj := mkConcat [.filter 8 (.leaf 8 1 2 [8] 0 0) (.modEq 20 0) true, .leaf 8 2 2 [8] 0 0]
example : RectOK exPaired ∧ okRun exPaired { idx := [] } = true ∧ ¬ SizeStable exPaired ∧
    rowsOf (run exPaired { idx := [] }).1 =
      [[1000000, 1000001], [1000020, 1000021], [1000040, 1000041], [1000060, 1000061],
       [2000000, 2000001], [2000010, 2000011], [2000020, 2000021], [2000030, 2000031],
       [2000040, 2000041], [2000050, 2000051], [2000060, 2000061], [2000070, 2000071]] := by
  refine ⟨by simp [exPaired, mkConcat, RectOK, RectOKL], by decide, by decide, by decide⟩

end NdeVerif.C13
