/-
  C07 — every accepted sampling method yields usable in-domain differentiable points.

  Theorems about `NdeVerif.AtomicGen` instantiated at `α = ℝ` (the *same* definitions the driver runs at
  `Float`; `./check C07` ties them to the real code on every run).  Quantification: all sizes `n`, all real
  bounds, all draws in the support of the RNG primitives (`rand ∈ [0,1)`, `randperm` a permutation,
  `randint(0,2) ∈ {0,1}`, normal variates arbitrary reals).
-/
import NdeVerif.Model.AtomicGen
import Mathlib.Analysis.SpecialFunctions.Trigonometric.Basic
import Mathlib.Analysis.SpecialFunctions.Trigonometric.Inverse
import Mathlib.Analysis.SpecialFunctions.Complex.Arg
import Mathlib.Analysis.SpecialFunctions.Pow.Real
import Mathlib.Analysis.SpecialFunctions.Log.Base
import Mathlib.Tactic.Linarith
import Mathlib.Tactic.Positivity
import Mathlib.Tactic.NormNum
import Mathlib.Tactic.Ring
import Mathlib.Tactic.FieldSimp

namespace NdeVerif.C07
open NdeVerif.AtomicGen

/-- the real-number reading of the elementary functions; `atan2 y x` is the argument of `x + i y`,
    `acos` is `Real.arccos` (total; that its operand stays in `[-1, 1]` is proved separately) -/
noncomputable instance instFnReal : Fn ℝ where
  cos := Real.cos
  acos := Real.arccos
  atan2 := fun y x => Complex.arg ⟨x, y⟩
  sqrt := Real.sqrt
  pow := fun x y => x ^ y
  log := Real.log
  log10 := Real.logb 10
  abs := fun x => |x|
  pi := Real.pi

@[simp] theorem fn_cos (x : ℝ) : Fn.cos x = Real.cos x := rfl
@[simp] theorem fn_acos (x : ℝ) : Fn.acos x = Real.arccos x := rfl
@[simp] theorem fn_atan2 (y x : ℝ) : Fn.atan2 y x = Complex.arg ⟨x, y⟩ := rfl
@[simp] theorem fn_sqrt (x : ℝ) : Fn.sqrt x = Real.sqrt x := rfl
@[simp] theorem fn_pow (x y : ℝ) : Fn.pow x y = x ^ y := rfl
@[simp] theorem fn_log (x : ℝ) : Fn.log x = Real.log x := rfl
@[simp] theorem fn_log10 (x : ℝ) : Fn.log10 x = Real.logb 10 x := rfl
@[simp] theorem fn_abs (x : ℝ) : Fn.abs x = |x| := rfl
@[simp] theorem fn_pi : (Fn.pi : ℝ) = Real.pi := rfl

/-! ### `torch.linspace` -/

theorem cast_pred (n : ℕ) (hn : 0 < n) : ((n - 1 : ℕ) : ℝ) = (n : ℝ) - 1 := by
  rw [Nat.cast_sub hn]; simp

/-- no-NaN, linspace: the step's denominator `n - 1` is non-zero whenever the formula is used (`n ≠ 1`) -/
theorem linspace_denominator_ne_zero (n : ℕ) (hn : 0 < n) (h1 : n ≠ 1) : ((n - 1 : ℕ) : ℝ) ≠ 0 := by
  have : 0 < n - 1 := by omega
  exact_mod_cast this.ne'

/-- `torch.linspace(a, b, 1) = [a]` (torch's definition for a single step) -/
theorem linspace_one (a b : ℝ) : linspace a b 1 = [a] := by
  simp [linspace, linNode]

theorem linNode_mem_Icc (a b : ℝ) (hab : a ≤ b) (n i : ℕ) (hi : i < n) : linNode a b n i ∈ Set.Icc a b := by
  unfold linNode
  split
  · exact ⟨le_refl _, hab⟩
  · rename_i h1
    have hd : (0 : ℝ) < ((n - 1 : ℕ) : ℝ) := by
      have : 0 < n - 1 := by omega
      exact_mod_cast this
    have hid : (i : ℝ) ≤ ((n - 1 : ℕ) : ℝ) := by
      have : i ≤ n - 1 := by omega
      exact_mod_cast this
    have hi0 : (0 : ℝ) ≤ (i : ℝ) := Nat.cast_nonneg _
    have e : (b - a) / ((n - 1 : ℕ) : ℝ) * (i : ℝ) = (b - a) * ((i : ℝ) / ((n - 1 : ℕ) : ℝ)) := by ring
    have t0 : 0 ≤ (i : ℝ) / ((n - 1 : ℕ) : ℝ) := div_nonneg hi0 hd.le
    have t1 : (i : ℝ) / ((n - 1 : ℕ) : ℝ) ≤ 1 := (div_le_one hd).mpr hid
    rw [e]
    constructor
    · nlinarith
    · nlinarith

/-- **in-domain, equally spaced**: every node of `linspace a b n` lies in `[a, b]` (all `n`, incl. `n = 1`) -/
theorem linspace_mem_Icc (a b : ℝ) (hab : a ≤ b) (n : ℕ) : ∀ x ∈ linspace a b n, x ∈ Set.Icc a b := by
  intro x hx
  simp only [linspace, List.mem_map, List.mem_range] at hx
  obtain ⟨i, hi, rfl⟩ := hx
  exact linNode_mem_Icc a b hab n i hi

/-- the nodes run from `a` (index 0) to `b` (index `n - 1`) -/
theorem linspace_endpoints (a b : ℝ) (n : ℕ) (hn : 2 ≤ n) :
    linNode a b n 0 = a ∧ linNode a b n (n - 1) = b := by
  have h1 : n ≠ 1 := by omega
  have hd := linspace_denominator_ne_zero n (by omega) h1
  simp only [linNode, h1, if_false]
  constructor
  · simp
  · field_simp; ring

example : linspace (-1 : ℝ) 3 3 = [-1, 1, 3] := by
  simp [linspace, linNode, List.range_succ]; norm_num

/-! ### Chebyshev nodes -/

theorem affCos_mem_Icc (a b c : ℝ) (hab : a ≤ b) (hc : c ∈ Set.Icc (-1 : ℝ) 1) : affCos a b c ∈ Set.Icc a b := by
  obtain ⟨h1, h2⟩ := hc
  unfold affCos
  push_cast
  constructor
  · rw [le_div_iff₀ (by norm_num : (0 : ℝ) < 2)]; nlinarith
  · rw [div_le_iff₀ (by norm_num : (0 : ℝ) < 2)]; nlinarith

theorem cos_mem (t : ℝ) : Real.cos t ∈ Set.Icc (-1 : ℝ) 1 := ⟨Real.neg_one_le_cos t, Real.cos_le_one t⟩

/-- **in-domain, first-kind Chebyshev nodes** -/
theorem cheb1_mem_Icc (a b : ℝ) (hab : a ≤ b) (n : ℕ) : ∀ x ∈ cheb1 a b n, x ∈ Set.Icc a b := by
  intro x hx
  simp only [cheb1, List.mem_map] at hx
  obtain ⟨i, -, rfl⟩ := hx
  exact affCos_mem_Icc a b _ hab (cos_mem _)

/-- **in-domain, second-kind Chebyshev nodes**: `((a+b) + (b−a) cos θ)/2 ∈ [a, b]` -/
theorem cheb2_mem_Icc (a b : ℝ) (hab : a ≤ b) (n : ℕ) : ∀ x ∈ cheb2 a b n, x ∈ Set.Icc a b := by
  intro x hx
  simp only [cheb2, List.mem_map] at hx
  obtain ⟨i, -, rfl⟩ := hx
  exact affCos_mem_Icc a b _ hab (cos_mem _)

/-- the noisy second-kind nodes stay in `[a, b]` too (the noise is inside the cosine), for every draw -/
theorem cheb2noisy_mem_Icc (a b : ℝ) (hab : a ≤ b) (n : ℕ) (us : List ℝ) :
    ∀ x ∈ cheb2Noisy a b n us, x ∈ Set.Icc a b := by
  intro x hx
  simp only [cheb2Noisy, List.mem_map] at hx
  obtain ⟨i, -, rfl⟩ := hx
  exact affCos_mem_Icc a b _ hab (cos_mem _)

/-- no-NaN, second-kind nodes: the denominator `float(n - 1)` is non-zero exactly from `n ≥ 2` on -/
theorem cheb2_denominator_ne_zero (n : ℕ) (hn : 2 ≤ n) : ((n - 1 : ℕ) : ℝ) ≠ 0 :=
  linspace_denominator_ne_zero n (by omega) (by omega)

/-- … and for a single node it *is* zero (`0/0`): the exclusion stated in the property -/
theorem cheb2_single_node_degenerate : (((1 : ℕ) - 1 : ℕ) : ℝ) = 0 := by simp

/-- no-NaN, first-kind nodes: the denominator `n` is non-zero for every non-empty grid -/
theorem cheb1_denominator_ne_zero (n : ℕ) (hn : 0 < n) : (n : ℝ) ≠ 0 := by exact_mod_cast hn.ne'

/-- first-kind nodes at `n = 2` on `[-1, 1]`: `cos(π/4)` and `cos(3π/4)` -/
example : cheb1 (-1 : ℝ) 1 2 = [Real.cos ((0 + 0.5) / 2 * Real.pi), Real.cos ((1 + 0.5) / 2 * Real.pi)] := by
  simp [cheb1, cheb1Node, affCos, List.range_succ]
  constructor <;> ring

/-! ### log spacing (`_compute_log_negative` + `torch.logspace`) -/

/-- no-NaN, log spacing: with positive bounds `log10` gets positive operands, and `10 ** x` is positive -/
theorem log_operands_pos (a b : ℝ) (ha : 0 < a) (hab : a ≤ b) (n i : ℕ) :
    0 < a ∧ 0 < b ∧ 0 < logNode a b n i := by
  refine ⟨ha, lt_of_lt_of_le ha hab, ?_⟩
  simp only [logNode, fn_pow]
  push_cast
  exact Real.rpow_pos_of_pos (by norm_num) _

theorem logNode_mem_Icc (a b : ℝ) (ha : 0 < a) (hab : a ≤ b) (n i : ℕ) (hi : i < n) :
    logNode a b n i ∈ Set.Icc a b := by
  have hb : 0 < b := lt_of_lt_of_le ha hab
  have hl : Real.logb 10 a ≤ Real.logb 10 b := Real.logb_le_logb_of_le (by norm_num) ha hab
  have hm := linNode_mem_Icc _ _ hl n i hi
  simp only [logNode, fn_pow, fn_log10]
  push_cast
  have h10 : (1 : ℝ) ≤ 10 := by norm_num
  constructor
  · calc a = (10 : ℝ) ^ Real.logb 10 a := (Real.rpow_logb (by norm_num) (by norm_num) ha).symm
      _ ≤ _ := Real.rpow_le_rpow_of_exponent_le h10 hm.1
  · calc _ ≤ (10 : ℝ) ^ Real.logb 10 b := Real.rpow_le_rpow_of_exponent_le h10 hm.2
      _ = b := Real.rpow_logb (by norm_num) (by norm_num) hb

/-- **in-domain, log spacing** (positive bounds) -/
theorem logspace_mem_Icc (a b : ℝ) (ha : 0 < a) (hab : a ≤ b) (n : ℕ) :
    ∀ x ∈ logspace a b n, x ∈ Set.Icc a b := by
  intro x hx
  simp only [logspace, List.mem_map, List.mem_range] at hx
  obtain ⟨i, hi, rfl⟩ := hx
  exact logNode_mem_Icc a b ha hab n i hi

example : logspace (1 : ℝ) 100 1 = [1] := by
  simp [logspace, logNode, linNode]

/-! ### exp spacing (GeneratorND) -/

/-- no-NaN, exp spacing: the operand of `torch.log` is positive and `np.log(base)` is non-zero (`base > 1`) -/
theorem exp_operands_pos (base a b : ℝ) (hbase : 1 < base) (hab : a ≤ b) (n i : ℕ) (hi : i < n) :
    0 < linNode (Fn.pow base a) (Fn.pow base b) n i ∧ Real.log base ≠ 0 := by
  have h0 : 0 < base := by linarith
  have hl : base ^ a ≤ base ^ b := Real.rpow_le_rpow_of_exponent_le hbase.le hab
  have hm := linNode_mem_Icc _ _ hl n i hi
  exact ⟨lt_of_lt_of_le (Real.rpow_pos_of_pos h0 a) hm.1, (Real.log_pos hbase).ne'⟩

theorem expNode_mem_Icc (base a b : ℝ) (hbase : 1 < base) (hab : a ≤ b) (n i : ℕ) (hi : i < n) :
    expNode base a b n i ∈ Set.Icc a b := by
  have h0 : 0 < base := by linarith
  have hl : base ^ a ≤ base ^ b := Real.rpow_le_rpow_of_exponent_le hbase.le hab
  have hm := linNode_mem_Icc _ _ hl n i hi
  have hlb : 0 < Real.log base := Real.log_pos hbase
  have hpa : 0 < base ^ a := Real.rpow_pos_of_pos h0 a
  have hx : 0 < linNode (base ^ a) (base ^ b) n i := lt_of_lt_of_le hpa hm.1
  simp only [expNode, fn_pow, fn_log]
  constructor
  · rw [le_div_iff₀ hlb, ← Real.log_rpow h0]
    exact Real.log_le_log hpa hm.1
  · rw [div_le_iff₀ hlb, ← Real.log_rpow h0]
    exact Real.log_le_log hx hm.2

/-- **in-domain, exp spacing** (any real bounds, `base > 1`) -/
theorem expspace_mem_Icc (base a b : ℝ) (hbase : 1 < base) (hab : a ≤ b) (n : ℕ) :
    ∀ x ∈ expspace base a b n, x ∈ Set.Icc a b := by
  intro x hx
  simp only [expspace, List.mem_map, List.mem_range] at hx
  obtain ⟨i, hi, rfl⟩ := hx
  exact expNode_mem_Icc base a b hbase hab n i hi

/-- the first exp-spaced node is the lower bound itself -/
theorem expNode_zero (base a b : ℝ) (hbase : 1 < base) (n : ℕ) : expNode base a b n 0 = a := by
  have h0 : 0 < base := by linarith
  have hlb : Real.log base ≠ 0 := (Real.log_pos hbase).ne'
  simp only [expNode, linNode, fn_pow, fn_log]
  split <;> simp [Real.log_rpow h0, hlb]

/-! ### uniform sampling -/

theorem nth_mem_Ico (us : List ℝ) (hu : ∀ u ∈ us, 0 ≤ u ∧ u < 1) (i : ℕ) : 0 ≤ nth us i ∧ nth us i < 1 := by
  unfold nth
  rw [List.getD_eq_getElem?_getD]
  cases h : us[i]? with
  | none => simp
  | some v => simpa using hu v (List.mem_of_getElem? h)

/-- **in-domain, uniform**: `u ∈ [0,1)` lands in `[a, b)` -/
theorem uniformNode_mem_Ico (a b u : ℝ) (hab : a < b) (hu : 0 ≤ u ∧ u < 1) : uniformNode a b u ∈ Set.Ico a b := by
  unfold uniformNode
  push_cast
  constructor <;> nlinarith [hu.1, hu.2]

theorem uniform_mem_Ico (a b : ℝ) (hab : a < b) (n : ℕ) (us : List ℝ) (hu : ∀ u ∈ us, 0 ≤ u ∧ u < 1) :
    ∀ x ∈ uniform a b n us, x ∈ Set.Ico a b := by
  intro x hx
  simp only [uniform, List.mem_map] at hx
  obtain ⟨i, -, rfl⟩ := hx
  exact uniformNode_mem_Ico a b _ hab (nth_mem_Ico us hu i)

/-- **fresh, uniform**: the sample is an injective function of the draw -/
theorem fresh_uniform (a b u u' : ℝ) (hab : a < b) (h : uniformNode a b u = uniformNode a b u') : u = u' := by
  unfold uniformNode at h
  have hne : b - a ≠ 0 := by linarith
  have : u * (b - a) = u' * (b - a) := by linarith
  exact mul_right_cancel₀ hne this

example : uniform (-2 : ℝ) 2 2 [0, 0.75] = [-2, 1] := by
  simp [uniform, uniformNode, nth, List.range_succ]; norm_num

/-! ### Latin hypercube (`_latin_hypercube`) -/

theorem lhs_edge (a b : ℝ) (n k : ℕ) (hn : 0 < n) : linNode a b (n + 1) k = a + (b - a) / n * k := by
  have h : ¬ (n + 1 = 1) := by omega
  simp only [linNode, if_neg h, Nat.add_sub_cancel]

theorem lhsPoint_eq (a b : ℝ) (n : ℕ) (hn : 0 < n) (u : ℝ) (i : ℕ) :
    lhsPoint a b n u i = a + (b - a) / n * (i + u) := by
  simp only [lhsPoint, lhs_edge a b n _ hn]; push_cast; ring

/-- the point built for stratum `i` lies in the half-open stratum `[edge i, edge (i+1))` -/
theorem lhsPoint_stratum (a b : ℝ) (hab : a < b) (n : ℕ) (hn : 0 < n) (u : ℝ) (hu : 0 ≤ u ∧ u < 1) (i : ℕ) :
    linNode a b (n + 1) i ≤ lhsPoint a b n u i ∧ lhsPoint a b n u i < linNode a b (n + 1) (i + 1) := by
  have hw : 0 < (b - a) / n := div_pos (by linarith) (by exact_mod_cast hn)
  rw [lhsPoint_eq a b n hn, lhs_edge a b n _ hn, lhs_edge a b n _ hn]
  push_cast
  constructor <;> nlinarith [hu.1, hu.2]

/-- … and in no other stratum -/
theorem lhsPoint_stratum_iff (a b : ℝ) (hab : a < b) (n : ℕ) (hn : 0 < n) (u : ℝ) (hu : 0 ≤ u ∧ u < 1) (i k : ℕ) :
    (linNode a b (n + 1) k ≤ lhsPoint a b n u i ∧ lhsPoint a b n u i < linNode a b (n + 1) (k + 1)) ↔ i = k := by
  constructor
  · rintro ⟨h1, h2⟩
    obtain ⟨g1, g2⟩ := lhsPoint_stratum a b hab n hn u hu i
    have hw : 0 < (b - a) / n := div_pos (by linarith) (by exact_mod_cast hn)
    rw [lhs_edge a b n _ hn] at h1 h2 g1 g2
    have e1 : (k : ℝ) < ((i + 1 : ℕ) : ℝ) := by
      by_contra hc
      have := mul_le_mul_of_nonneg_left (not_lt.mp hc) hw.le
      linarith
    have e2 : (i : ℝ) < ((k + 1 : ℕ) : ℝ) := by
      by_contra hc
      have := mul_le_mul_of_nonneg_left (not_lt.mp hc) hw.le
      linarith
    have e1' : k < i + 1 := by exact_mod_cast e1
    have e2' : i < k + 1 := by exact_mod_cast e2
    omega
  · rintro rfl
    exact lhsPoint_stratum a b hab n hn u hu i

theorem nth_lhs (a b : ℝ) (n : ℕ) (us : List ℝ) (perm : List ℕ) (j : ℕ) (hj : j < perm.length) :
    nth (lhs a b n us perm) j = lhsPoint a b n (nth us perm[j]) perm[j] := by
  simp [nth, lhs, List.getD_eq_getElem?_getD, hj]

/-- **in-domain, Latin hypercube**: every sample lies in `[a, b]`, for every draw and every index list below `n` -/
theorem lhs_mem_Icc (a b : ℝ) (hab : a < b) (n : ℕ) (us : List ℝ) (perm : List ℕ)
    (hu : ∀ u ∈ us, 0 ≤ u ∧ u < 1) (hp : ∀ p ∈ perm, p < n) :
    ∀ x ∈ lhs a b n us perm, x ∈ Set.Icc a b := by
  intro x hx
  simp only [lhs, List.mem_map] at hx
  obtain ⟨p, hpm, rfl⟩ := hx
  have hpn := hp p hpm
  have hn : 0 < n := by omega
  obtain ⟨g1, g2⟩ := lhsPoint_stratum a b hab n hn _ (nth_mem_Ico us hu p) p
  have l1 := linNode_mem_Icc a b hab.le (n + 1) p (by omega)
  have l2 := linNode_mem_Icc a b hab.le (n + 1) (p + 1) (by omega)
  exact ⟨le_trans l1.1 g1, le_trans g2.le l2.2⟩

/-- **one point per stratum**: for every permutation and every uniform draw, each of the `n` equal-width
    strata `[edge k, edge (k+1))` of `[a, b]` contains exactly one of the `n` returned points -/
theorem lhs_one_per_stratum (a b : ℝ) (hab : a < b) (n : ℕ) (us : List ℝ) (perm : List ℕ)
    (hu : ∀ u ∈ us, 0 ≤ u ∧ u < 1) (hp : perm.Perm (List.range n)) :
    ∀ k, k < n → ∃! j, j < n ∧ linNode a b (n + 1) k ≤ nth (lhs a b n us perm) j ∧
      nth (lhs a b n us perm) j < linNode a b (n + 1) (k + 1) := by
  intro k hk
  have hn : 0 < n := by omega
  have hlen : perm.length = n := by simpa using hp.length_eq
  have hnd : perm.Nodup := hp.nodup_iff.2 List.nodup_range
  have hkm : k ∈ perm := hp.mem_iff.2 (List.mem_range.2 hk)
  obtain ⟨j, hj, hjk⟩ := List.getElem_of_mem hkm
  have key : ∀ j' (hj' : j' < perm.length),
      (linNode a b (n + 1) k ≤ nth (lhs a b n us perm) j' ∧ nth (lhs a b n us perm) j' < linNode a b (n + 1) (k + 1))
        ↔ perm[j'] = k := by
    intro j' hj'
    rw [nth_lhs a b n us perm j' hj']
    exact lhsPoint_stratum_iff a b hab n hn _ (nth_mem_Ico us hu _) _ _
  refine ⟨j, ⟨by omega, (key j hj).2 hjk⟩, ?_⟩
  rintro j' ⟨hj'n, hj'⟩
  have hj'l : j' < perm.length := by omega
  have := (key j' hj'l).1 hj'
  exact (hnd.getElem_inj_iff).1 (this.trans hjk.symm)

/-- non-vacuity: `n = 3` on `[0, 3]`, permutation `[2, 0, 1]`, draws `[0.5, 0.25, 0]` -/
example : lhs (0 : ℝ) 3 3 [0.5, 0.25, 0] [2, 0, 1] = [2, 0.5, 1.25] := by
  simp [lhs, lhsPoint, linNode, nth]; norm_num
example : [2, 0, 1].Perm (List.range 3) := by decide

/-! ### additive noise (`torch.normal(mean, std) = z * std + mean`) -/

theorem nth_eq_getElem (xs : List ℝ) (i : ℕ) (h : i < xs.length) : nth xs i = xs[i] := by
  simp [nth, List.getD_eq_getElem?_getD, h]

/-- default noise scale `((b − a)/n)/4 > 0` for `a < b` and a non-empty grid (so it never freezes a point) -/
theorem defaultStd_pos (a b : ℝ) (hab : a < b) (n : ℕ) (hn : 0 < n) : 0 < defaultStd a b n := by
  unfold defaultStd
  have : (0 : ℝ) < n := by exact_mod_cast hn
  push_cast
  have : 0 < b - a := by linarith
  positivity

theorem std3_pos (a b : ℝ) (hab : a < b) (n : ℕ) (hn : 0 < n) : 0 < std3 a b n := by
  unfold std3
  have : (0 : ℝ) < n := by exact_mod_cast hn
  push_cast
  have : 0 < b - a := by linarith
  positivity

/-- **fresh, scalar noise scale** (Generator1D / Generator2D noisy methods): the returned points determine the
    normal draw, i.e. a different draw gives different points -/
theorem fresh_noisyS (mean z z' : List ℝ) (s : ℝ) (hs : s ≠ 0) (hz : z.length = mean.length)
    (hz' : z'.length = mean.length) (h : noisyS mean s z = noisyS mean s z') : z = z' := by
  apply List.ext_getElem (by omega)
  intro i h1 h2
  have hi : i < mean.length := by omega
  have := congrArg (fun l => l[i]?) h
  simp only [noisyS, List.getElem?_mapIdx, List.getElem?_eq_getElem hi, Option.map_some, Option.some.injEq,
    nth_eq_getElem z i h1, nth_eq_getElem z' i h2] at this
  have : z[i] * s = z'[i] * s := by linarith
  exact mul_right_cancel₀ hs this

/-- **fresh, per-node noise scale** (GeneratorND): same, provided no node has scale zero -/
theorem fresh_noisyT (mean std z z' : List ℝ) (hstd : ∀ i, i < mean.length → nth std i ≠ 0)
    (hz : z.length = mean.length) (hz' : z'.length = mean.length)
    (h : noisyT mean std z = noisyT mean std z') : z = z' := by
  apply List.ext_getElem (by omega)
  intro i h1 h2
  have hi : i < mean.length := by omega
  have := congrArg (fun l => l[i]?) h
  simp only [noisyT, List.getElem?_mapIdx, List.getElem?_eq_getElem hi, Option.map_some, Option.some.injEq,
    nth_eq_getElem z i h1, nth_eq_getElem z' i h2] at this
  have : z[i] * nth std i = z'[i] * nth std i := by linarith
  exact mul_right_cancel₀ (hstd i hi) this

/-- **fresh, Generator3D** (`grid + normal(0, std)`) -/
theorem fresh_noisy3 (grid z z' : List ℝ) (s : ℝ) (hs : s ≠ 0) (hz : z.length = grid.length)
    (hz' : z'.length = grid.length) (h : noisy3 grid s z = noisy3 grid s z') : z = z' := by
  apply List.ext_getElem (by omega)
  intro i h1 h2
  have hi : i < grid.length := by omega
  have := congrArg (fun l => l[i]?) h
  simp only [noisy3, List.getElem?_mapIdx, List.getElem?_eq_getElem hi, Option.map_some, Option.some.injEq,
    nth_eq_getElem z i h1, nth_eq_getElem z' i h2] at this
  have : z[i] * s = z'[i] * s := by linarith
  exact mul_right_cancel₀ hs this

/-- a zero noise scale (the N-D 'uniform' axis) returns the stored points whatever is drawn -/
theorem nd_uniform_axis_constant (mean z : List ℝ) :
    noisyT mean (mean.map (fun _ => ((0 : ℕ) : ℝ))) z = mean := by
  apply List.ext_getElem?
  intro i
  simp only [noisyT, List.getElem?_mapIdx]
  cases h : mean[i]? with
  | none => simp
  | some m =>
    have hi : i < mean.length := (List.getElem?_eq_some_iff.1 h).1
    simp [nth, List.getD_eq_getElem?_getD, hi]

example : noisyS [1, 2] (0.5 : ℝ) [2, -2] = [2, 1] := by
  simp [noisyS, nth]; norm_num

end NdeVerif.C07
