/-
  C07 — every accepted sampling method yields usable in-domain differentiable points.

  Theorems about `NdeVerif.AtomicGen` instantiated at `α = ℝ` (the *same* definitions the driver runs at
  `Float`; `./check C07` ties them to the real code on every run).  Quantification: all sizes `n`, all real
  bounds, all draws in the support of the RNG primitives (`rand ∈ [0,1)`, `randperm` a permutation,
  `randint(0,2) ∈ {0,1}`, normal variates arbitrary reals).
-/
import NdeVerif.Model.AtomicGen
import Mathlib.Analysis.SpecialFunctions.Trigonometric.Basic
import Mathlib.Analysis.SpecialFunctions.Trigonometric.Inverse
import Mathlib.Analysis.SpecialFunctions.Complex.Arg
import Mathlib.Analysis.SpecialFunctions.Pow.Real
import Mathlib.Analysis.SpecialFunctions.Log.Base
import Mathlib.Tactic.Linarith
import Mathlib.Tactic.Positivity
import Mathlib.Tactic.NormNum
import Mathlib.Tactic.Ring
import Mathlib.Tactic.FieldSimp

namespace NdeVerif.C07
open NdeVerif.AtomicGen

/-- the real-number reading of the elementary functions; `atan2 y x` is the argument of `x + i y`,
    `acos` is `Real.arccos` (total; that its operand stays in `[-1, 1]` is proved separately) -/
noncomputable instance instFnReal : Fn ℝ where
  cos := Real.cos
  acos := Real.arccos
  atan2 := fun y x => Complex.arg ⟨x, y⟩
  sqrt := Real.sqrt
  pow := fun x y => x ^ y
  log := Real.log
  log10 := Real.logb 10
  abs := fun x => |x|
  pi := Real.pi

@[simp] theorem fn_cos (x : ℝ) : Fn.cos x = Real.cos x := rfl
@[simp] theorem fn_acos (x : ℝ) : Fn.acos x = Real.arccos x := rfl
@[simp] theorem fn_atan2 (y x : ℝ) : Fn.atan2 y x = Complex.arg ⟨x, y⟩ := rfl
@[simp] theorem fn_sqrt (x : ℝ) : Fn.sqrt x = Real.sqrt x := rfl
@[simp] theorem fn_pow (x y : ℝ) : Fn.pow x y = x ^ y := rfl
@[simp] theorem fn_log (x : ℝ) : Fn.log x = Real.log x := rfl
@[simp] theorem fn_log10 (x : ℝ) : Fn.log10 x = Real.logb 10 x := rfl
@[simp] theorem fn_abs (x : ℝ) : Fn.abs x = |x| := rfl
@[simp] theorem fn_pi : (Fn.pi : ℝ) = Real.pi := rfl

/-! ### `torch.linspace` -/

theorem cast_pred (n : ℕ) (hn : 0 < n) : ((n - 1 : ℕ) : ℝ) = (n : ℝ) - 1 := by
  rw [Nat.cast_sub hn]; simp

/-- no-NaN, linspace: the step's denominator `n - 1` is non-zero whenever the formula is used (`n ≠ 1`) -/
theorem linspace_denominator_ne_zero (n : ℕ) (hn : 0 < n) (h1 : n ≠ 1) : ((n - 1 : ℕ) : ℝ) ≠ 0 := by
  have : 0 < n - 1 := by omega
  exact_mod_cast this.ne'

/-- `torch.linspace(a, b, 1) = [a]` (torch's definition for a single step) -/
theorem linspace_one (a b : ℝ) : linspace a b 1 = [a] := by
  simp [linspace, linNode]

theorem linNode_mem_Icc (a b : ℝ) (hab : a ≤ b) (n i : ℕ) (hi : i < n) : linNode a b n i ∈ Set.Icc a b := by
  unfold linNode
  split
  · exact ⟨le_refl _, hab⟩
  · rename_i h1
    have hd : (0 : ℝ) < ((n - 1 : ℕ) : ℝ) := by
      have : 0 < n - 1 := by omega
      exact_mod_cast this
    have hid : (i : ℝ) ≤ ((n - 1 : ℕ) : ℝ) := by
      have : i ≤ n - 1 := by omega
      exact_mod_cast this
    have hi0 : (0 : ℝ) ≤ (i : ℝ) := Nat.cast_nonneg _
    have e : (b - a) / ((n - 1 : ℕ) : ℝ) * (i : ℝ) = (b - a) * ((i : ℝ) / ((n - 1 : ℕ) : ℝ)) := by ring
    have t0 : 0 ≤ (i : ℝ) / ((n - 1 : ℕ) : ℝ) := div_nonneg hi0 hd.le
    have t1 : (i : ℝ) / ((n - 1 : ℕ) : ℝ) ≤ 1 := (div_le_one hd).mpr hid
    rw [e]
    constructor
    · nlinarith
    · nlinarith

/-- **in-domain, equally spaced**: every node of `linspace a b n` lies in `[a, b]` (all `n`, incl. `n = 1`) -/
theorem linspace_mem_Icc (a b : ℝ) (hab : a ≤ b) (n : ℕ) : ∀ x ∈ linspace a b n, x ∈ Set.Icc a b := by
  intro x hx
  simp only [linspace, List.mem_map, List.mem_range] at hx
  obtain ⟨i, hi, rfl⟩ := hx
  exact linNode_mem_Icc a b hab n i hi

/-- the nodes run from `a` (index 0) to `b` (index `n - 1`) -/
theorem linspace_endpoints (a b : ℝ) (n : ℕ) (hn : 2 ≤ n) :
    linNode a b n 0 = a ∧ linNode a b n (n - 1) = b := by
  have h1 : n ≠ 1 := by omega
  have hd := linspace_denominator_ne_zero n (by omega) h1
  simp only [linNode, h1, if_false]
  constructor
  · simp
  · field_simp; ring

example : linspace (-1 : ℝ) 3 3 = [-1, 1, 3] := by
  simp [linspace, linNode, List.range_succ]; norm_num

/-! ### Chebyshev nodes -/

theorem affCos_mem_Icc (a b c : ℝ) (hab : a ≤ b) (hc : c ∈ Set.Icc (-1 : ℝ) 1) : affCos a b c ∈ Set.Icc a b := by
  obtain ⟨h1, h2⟩ := hc
  unfold affCos
  push_cast
  constructor
  · rw [le_div_iff₀ (by norm_num : (0 : ℝ) < 2)]; nlinarith
  · rw [div_le_iff₀ (by norm_num : (0 : ℝ) < 2)]; nlinarith

theorem cos_mem (t : ℝ) : Real.cos t ∈ Set.Icc (-1 : ℝ) 1 := ⟨Real.neg_one_le_cos t, Real.cos_le_one t⟩

/-- **in-domain, first-kind Chebyshev nodes** -/
theorem cheb1_mem_Icc (a b : ℝ) (hab : a ≤ b) (n : ℕ) : ∀ x ∈ cheb1 a b n, x ∈ Set.Icc a b := by
  intro x hx
  simp only [cheb1, List.mem_map] at hx
  obtain ⟨i, -, rfl⟩ := hx
  exact affCos_mem_Icc a b _ hab (cos_mem _)

/-- **in-domain, second-kind Chebyshev nodes**: `((a+b) + (b−a) cos θ)/2 ∈ [a, b]` -/
theorem cheb2_mem_Icc (a b : ℝ) (hab : a ≤ b) (n : ℕ) : ∀ x ∈ cheb2 a b n, x ∈ Set.Icc a b := by
  intro x hx
  simp only [cheb2, List.mem_map] at hx
  obtain ⟨i, -, rfl⟩ := hx
  exact affCos_mem_Icc a b _ hab (cos_mem _)

/-- the noisy second-kind nodes stay in `[a, b]` too (the noise is inside the cosine), for every draw -/
theorem cheb2noisy_mem_Icc (a b : ℝ) (hab : a ≤ b) (n : ℕ) (us : List ℝ) :
    ∀ x ∈ cheb2Noisy a b n us, x ∈ Set.Icc a b := by
  intro x hx
  simp only [cheb2Noisy, List.mem_map] at hx
  obtain ⟨i, -, rfl⟩ := hx
  exact affCos_mem_Icc a b _ hab (cos_mem _)

/-- no-NaN, second-kind nodes: the denominator `float(n - 1)` is non-zero exactly from `n ≥ 2` on -/
theorem cheb2_denominator_ne_zero (n : ℕ) (hn : 2 ≤ n) : ((n - 1 : ℕ) : ℝ) ≠ 0 :=
  linspace_denominator_ne_zero n (by omega) (by omega)

/-- … and for a single node it *is* zero (`0/0`): the exclusion stated in the property -/
theorem cheb2_single_node_degenerate : (((1 : ℕ) - 1 : ℕ) : ℝ) = 0 := by simp

/-- no-NaN, first-kind nodes: the denominator `n` is non-zero for every non-empty grid -/
theorem cheb1_denominator_ne_zero (n : ℕ) (hn : 0 < n) : (n : ℝ) ≠ 0 := by exact_mod_cast hn.ne'

/-- first-kind nodes at `n = 2` on `[-1, 1]`: `cos(π/4)` and `cos(3π/4)` -/
example : cheb1 (-1 : ℝ) 1 2 = [Real.cos ((0 + 0.5) / 2 * Real.pi), Real.cos ((1 + 0.5) / 2 * Real.pi)] := by
  simp [cheb1, cheb1Node, affCos, List.range_succ]
  constructor <;> ring

/-! ### log spacing (`_compute_log_negative` + `torch.logspace`) -/

/-- no-NaN, log spacing: with positive bounds `log10` gets positive operands, and `10 ** x` is positive -/
theorem log_operands_pos (a b : ℝ) (ha : 0 < a) (hab : a ≤ b) (n i : ℕ) :
    0 < a ∧ 0 < b ∧ 0 < logNode a b n i := by
  refine ⟨ha, lt_of_lt_of_le ha hab, ?_⟩
  simp only [logNode, fn_pow]
  push_cast
  exact Real.rpow_pos_of_pos (by norm_num) _

theorem logNode_mem_Icc (a b : ℝ) (ha : 0 < a) (hab : a ≤ b) (n i : ℕ) (hi : i < n) :
    logNode a b n i ∈ Set.Icc a b := by
  have hb : 0 < b := lt_of_lt_of_le ha hab
  have hl : Real.logb 10 a ≤ Real.logb 10 b := Real.logb_le_logb_of_le (by norm_num) ha hab
  have hm := linNode_mem_Icc _ _ hl n i hi
  simp only [logNode, fn_pow, fn_log10]
  push_cast
  have h10 : (1 : ℝ) ≤ 10 := by norm_num
  constructor
  · calc a = (10 : ℝ) ^ Real.logb 10 a := (Real.rpow_logb (by norm_num) (by norm_num) ha).symm
      _ ≤ _ := Real.rpow_le_rpow_of_exponent_le h10 hm.1
  · calc _ ≤ (10 : ℝ) ^ Real.logb 10 b := Real.rpow_le_rpow_of_exponent_le h10 hm.2
      _ = b := Real.rpow_logb (by norm_num) (by norm_num) hb

/-- **in-domain, log spacing** (positive bounds) -/
theorem logspace_mem_Icc (a b : ℝ) (ha : 0 < a) (hab : a ≤ b) (n : ℕ) :
    ∀ x ∈ logspace a b n, x ∈ Set.Icc a b := by
  intro x hx
  simp only [logspace, List.mem_map, List.mem_range] at hx
  obtain ⟨i, hi, rfl⟩ := hx
  exact logNode_mem_Icc a b ha hab n i hi

example : logspace (1 : ℝ) 100 1 = [1] := by
  simp [logspace, logNode, linNode]

/-! ### exp spacing (GeneratorND) -/

/-- no-NaN, exp spacing: the operand of `torch.log` is positive and `np.log(base)` is non-zero (`base > 1`) -/
theorem exp_operands_pos (base a b : ℝ) (hbase : 1 < base) (hab : a ≤ b) (n i : ℕ) (hi : i < n) :
    0 < linNode (Fn.pow base a) (Fn.pow base b) n i ∧ Real.log base ≠ 0 := by
  have h0 : 0 < base := by linarith
  have hl : base ^ a ≤ base ^ b := Real.rpow_le_rpow_of_exponent_le hbase.le hab
  have hm := linNode_mem_Icc _ _ hl n i hi
  exact ⟨lt_of_lt_of_le (Real.rpow_pos_of_pos h0 a) hm.1, (Real.log_pos hbase).ne'⟩

theorem expNode_mem_Icc (base a b : ℝ) (hbase : 1 < base) (hab : a ≤ b) (n i : ℕ) (hi : i < n) :
    expNode base a b n i ∈ Set.Icc a b := by
  have h0 : 0 < base := by linarith
  have hl : base ^ a ≤ base ^ b := Real.rpow_le_rpow_of_exponent_le hbase.le hab
  have hm := linNode_mem_Icc _ _ hl n i hi
  have hlb : 0 < Real.log base := Real.log_pos hbase
  have hpa : 0 < base ^ a := Real.rpow_pos_of_pos h0 a
  have hx : 0 < linNode (base ^ a) (base ^ b) n i := lt_of_lt_of_le hpa hm.1
  simp only [expNode, fn_pow, fn_log]
  constructor
  · rw [le_div_iff₀ hlb, ← Real.log_rpow h0]
    exact Real.log_le_log hpa hm.1
  · rw [div_le_iff₀ hlb, ← Real.log_rpow h0]
    exact Real.log_le_log hx hm.2

/-- **in-domain, exp spacing** (any real bounds, `base > 1`) -/
theorem expspace_mem_Icc (base a b : ℝ) (hbase : 1 < base) (hab : a ≤ b) (n : ℕ) :
    ∀ x ∈ expspace base a b n, x ∈ Set.Icc a b := by
  intro x hx
  simp only [expspace, List.mem_map, List.mem_range] at hx
  obtain ⟨i, hi, rfl⟩ := hx
  exact expNode_mem_Icc base a b hbase hab n i hi

/-- the first exp-spaced node is the lower bound itself -/
theorem expNode_zero (base a b : ℝ) (hbase : 1 < base) (n : ℕ) : expNode base a b n 0 = a := by
  have h0 : 0 < base := by linarith
  have hlb : Real.log base ≠ 0 := (Real.log_pos hbase).ne'
  simp only [expNode, linNode, fn_pow, fn_log]
  split <;> simp [Real.log_rpow h0, hlb]

/-! ### uniform sampling -/

theorem nth_mem_Ico (us : List ℝ) (hu : ∀ u ∈ us, 0 ≤ u ∧ u < 1) (i : ℕ) : 0 ≤ nth us i ∧ nth us i < 1 := by
  unfold nth
  rw [List.getD_eq_getElem?_getD]
  cases h : us[i]? with
  | none => simp
  | some v => simpa using hu v (List.mem_of_getElem? h)

/-- **in-domain, uniform**: `u ∈ [0,1)` lands in `[a, b)` -/
theorem uniformNode_mem_Ico (a b u : ℝ) (hab : a < b) (hu : 0 ≤ u ∧ u < 1) : uniformNode a b u ∈ Set.Ico a b := by
  unfold uniformNode
  push_cast
  constructor <;> nlinarith [hu.1, hu.2]

theorem uniform_mem_Ico (a b : ℝ) (hab : a < b) (n : ℕ) (us : List ℝ) (hu : ∀ u ∈ us, 0 ≤ u ∧ u < 1) :
    ∀ x ∈ uniform a b n us, x ∈ Set.Ico a b := by
  intro x hx
  simp only [uniform, List.mem_map] at hx
  obtain ⟨i, -, rfl⟩ := hx
  exact uniformNode_mem_Ico a b _ hab (nth_mem_Ico us hu i)

/-- **fresh, uniform**: the sample is an injective function of the draw -/
theorem fresh_uniform (a b u u' : ℝ) (hab : a < b) (h : uniformNode a b u = uniformNode a b u') : u = u' := by
  unfold uniformNode at h
  have hne : b - a ≠ 0 := by linarith
  have : u * (b - a) = u' * (b - a) := by linarith
  exact mul_right_cancel₀ hne this

example : uniform (-2 : ℝ) 2 2 [0, 0.75] = [-2, 1] := by
  simp [uniform, uniformNode, nth, List.range_succ]; norm_num

/-! ### Latin hypercube (`_latin_hypercube`) -/

theorem lhs_edge (a b : ℝ) (n k : ℕ) (hn : 0 < n) : linNode a b (n + 1) k = a + (b - a) / n * k := by
  have h : ¬ (n + 1 = 1) := by omega
  simp only [linNode, if_neg h, Nat.add_sub_cancel]

theorem lhsPoint_eq (a b : ℝ) (n : ℕ) (hn : 0 < n) (u : ℝ) (i : ℕ) :
    lhsPoint a b n u i = a + (b - a) / n * (i + u) := by
  simp only [lhsPoint, lhs_edge a b n _ hn]; push_cast; ring

/-- the point built for stratum `i` lies in the half-open stratum `[edge i, edge (i+1))` -/
theorem lhsPoint_stratum (a b : ℝ) (hab : a < b) (n : ℕ) (hn : 0 < n) (u : ℝ) (hu : 0 ≤ u ∧ u < 1) (i : ℕ) :
    linNode a b (n + 1) i ≤ lhsPoint a b n u i ∧ lhsPoint a b n u i < linNode a b (n + 1) (i + 1) := by
  have hw : 0 < (b - a) / n := div_pos (by linarith) (by exact_mod_cast hn)
  rw [lhsPoint_eq a b n hn, lhs_edge a b n _ hn, lhs_edge a b n _ hn]
  push_cast
  constructor <;> nlinarith [hu.1, hu.2]

/-- … and in no other stratum -/
theorem lhsPoint_stratum_iff (a b : ℝ) (hab : a < b) (n : ℕ) (hn : 0 < n) (u : ℝ) (hu : 0 ≤ u ∧ u < 1) (i k : ℕ) :
    (linNode a b (n + 1) k ≤ lhsPoint a b n u i ∧ lhsPoint a b n u i < linNode a b (n + 1) (k + 1)) ↔ i = k := by
  constructor
  · rintro ⟨h1, h2⟩
    obtain ⟨g1, g2⟩ := lhsPoint_stratum a b hab n hn u hu i
    have hw : 0 < (b - a) / n := div_pos (by linarith) (by exact_mod_cast hn)
    rw [lhs_edge a b n _ hn] at h1 h2 g1 g2
    have e1 : (k : ℝ) < ((i + 1 : ℕ) : ℝ) := by
      by_contra hc
      have := mul_le_mul_of_nonneg_left (not_lt.mp hc) hw.le
      linarith
    have e2 : (i : ℝ) < ((k + 1 : ℕ) : ℝ) := by
      by_contra hc
      have := mul_le_mul_of_nonneg_left (not_lt.mp hc) hw.le
      linarith
    have e1' : k < i + 1 := by exact_mod_cast e1
    have e2' : i < k + 1 := by exact_mod_cast e2
    omega
  · rintro rfl
    exact lhsPoint_stratum a b hab n hn u hu i

theorem nth_lhs (a b : ℝ) (n : ℕ) (us : List ℝ) (perm : List ℕ) (j : ℕ) (hj : j < perm.length) :
    nth (lhs a b n us perm) j = lhsPoint a b n (nth us perm[j]) perm[j] := by
  simp [nth, lhs, List.getD_eq_getElem?_getD, hj]

/-- **in-domain, Latin hypercube**: every sample lies in `[a, b]`, for every draw and every index list below `n` -/
theorem lhs_mem_Icc (a b : ℝ) (hab : a < b) (n : ℕ) (us : List ℝ) (perm : List ℕ)
    (hu : ∀ u ∈ us, 0 ≤ u ∧ u < 1) (hp : ∀ p ∈ perm, p < n) :
    ∀ x ∈ lhs a b n us perm, x ∈ Set.Icc a b := by
  intro x hx
  simp only [lhs, List.mem_map] at hx
  obtain ⟨p, hpm, rfl⟩ := hx
  have hpn := hp p hpm
  have hn : 0 < n := by omega
  obtain ⟨g1, g2⟩ := lhsPoint_stratum a b hab n hn _ (nth_mem_Ico us hu p) p
  have l1 := linNode_mem_Icc a b hab.le (n + 1) p (by omega)
  have l2 := linNode_mem_Icc a b hab.le (n + 1) (p + 1) (by omega)
  exact ⟨le_trans l1.1 g1, le_trans g2.le l2.2⟩

/-- **one point per stratum**: for every permutation and every uniform draw, each of the `n` equal-width
    strata `[edge k, edge (k+1))` of `[a, b]` contains exactly one of the `n` returned points -/
theorem lhs_one_per_stratum (a b : ℝ) (hab : a < b) (n : ℕ) (us : List ℝ) (perm : List ℕ)
    (hu : ∀ u ∈ us, 0 ≤ u ∧ u < 1) (hp : perm.Perm (List.range n)) :
    ∀ k, k < n → ∃! j, j < n ∧ linNode a b (n + 1) k ≤ nth (lhs a b n us perm) j ∧
      nth (lhs a b n us perm) j < linNode a b (n + 1) (k + 1) := by
  intro k hk
  have hn : 0 < n := by omega
  have hlen : perm.length = n := by simpa using hp.length_eq
  have hnd : perm.Nodup := hp.nodup_iff.2 List.nodup_range
  have hkm : k ∈ perm := hp.mem_iff.2 (List.mem_range.2 hk)
  obtain ⟨j, hj, hjk⟩ := List.getElem_of_mem hkm
  have key : ∀ j' (hj' : j' < perm.length),
      (linNode a b (n + 1) k ≤ nth (lhs a b n us perm) j' ∧ nth (lhs a b n us perm) j' < linNode a b (n + 1) (k + 1))
        ↔ perm[j'] = k := by
    intro j' hj'
    rw [nth_lhs a b n us perm j' hj']
    exact lhsPoint_stratum_iff a b hab n hn _ (nth_mem_Ico us hu _) _ _
  refine ⟨j, ⟨by omega, (key j hj).2 hjk⟩, ?_⟩
  rintro j' ⟨hj'n, hj'⟩
  have hj'l : j' < perm.length := by omega
  have := (key j' hj'l).1 hj'
  exact (hnd.getElem_inj_iff).1 (this.trans hjk.symm)

/-- non-vacuity: `n = 3` on `[0, 3]`, permutation `[2, 0, 1]`, draws `[0.5, 0.25, 0]` -/
example : lhs (0 : ℝ) 3 3 [0.5, 0.25, 0] [2, 0, 1] = [2, 0.5, 1.25] := by
  simp [lhs, lhsPoint, linNode, nth]; norm_num
example : [2, 0, 1].Perm (List.range 3) := by decide

/-! ### additive noise (`torch.normal(mean, std) = z * std + mean`) -/

theorem nth_eq_getElem (xs : List ℝ) (i : ℕ) (h : i < xs.length) : nth xs i = xs[i] := by
  simp [nth, List.getD_eq_getElem?_getD, h]

/-- default noise scale `((b − a)/n)/4 > 0` for `a < b` and a non-empty grid (so it never freezes a point) -/
theorem defaultStd_pos (a b : ℝ) (hab : a < b) (n : ℕ) (hn : 0 < n) : 0 < defaultStd a b n := by
  unfold defaultStd
  have : (0 : ℝ) < n := by exact_mod_cast hn
  push_cast
  have : 0 < b - a := by linarith
  positivity

theorem std3_pos (a b : ℝ) (hab : a < b) (n : ℕ) (hn : 0 < n) : 0 < std3 a b n := by
  unfold std3
  have : (0 : ℝ) < n := by exact_mod_cast hn
  push_cast
  have : 0 < b - a := by linarith
  positivity

/-- **fresh, scalar noise scale** (Generator1D / Generator2D noisy methods): the returned points determine the
    normal draw, i.e. a different draw gives different points -/
theorem fresh_noisyS (mean z z' : List ℝ) (s : ℝ) (hs : s ≠ 0) (hz : z.length = mean.length)
    (hz' : z'.length = mean.length) (h : noisyS mean s z = noisyS mean s z') : z = z' := by
  apply List.ext_getElem (by omega)
  intro i h1 h2
  have hi : i < mean.length := by omega
  have := congrArg (fun l => l[i]?) h
  simp only [noisyS, List.getElem?_mapIdx, List.getElem?_eq_getElem hi, Option.map_some, Option.some.injEq,
    nth_eq_getElem z i h1, nth_eq_getElem z' i h2] at this
  have : z[i] * s = z'[i] * s := by linarith
  exact mul_right_cancel₀ hs this

/-- **fresh, per-node noise scale** (GeneratorND): same, provided no node has scale zero -/
theorem fresh_noisyT (mean std z z' : List ℝ) (hstd : ∀ i, i < mean.length → nth std i ≠ 0)
    (hz : z.length = mean.length) (hz' : z'.length = mean.length)
    (h : noisyT mean std z = noisyT mean std z') : z = z' := by
  apply List.ext_getElem (by omega)
  intro i h1 h2
  have hi : i < mean.length := by omega
  have := congrArg (fun l => l[i]?) h
  simp only [noisyT, List.getElem?_mapIdx, List.getElem?_eq_getElem hi, Option.map_some, Option.some.injEq,
    nth_eq_getElem z i h1, nth_eq_getElem z' i h2] at this
  have : z[i] * nth std i = z'[i] * nth std i := by linarith
  exact mul_right_cancel₀ (hstd i hi) this

/-- **fresh, Generator3D** (`grid + normal(0, std)`) -/
theorem fresh_noisy3 (grid z z' : List ℝ) (s : ℝ) (hs : s ≠ 0) (hz : z.length = grid.length)
    (hz' : z'.length = grid.length) (h : noisy3 grid s z = noisy3 grid s z') : z = z' := by
  apply List.ext_getElem (by omega)
  intro i h1 h2
  have hi : i < grid.length := by omega
  have := congrArg (fun l => l[i]?) h
  simp only [noisy3, List.getElem?_mapIdx, List.getElem?_eq_getElem hi, Option.map_some, Option.some.injEq,
    nth_eq_getElem z i h1, nth_eq_getElem z' i h2] at this
  have : z[i] * s = z'[i] * s := by linarith
  exact mul_right_cancel₀ hs this

/-- a zero noise scale (the N-D 'uniform' axis) returns the stored points whatever is drawn -/
theorem nd_uniform_axis_constant (mean z : List ℝ) :
    noisyT mean (mean.map (fun _ => ((0 : ℕ) : ℝ))) z = mean := by
  apply List.ext_getElem?
  intro i
  simp only [noisyT, List.getElem?_mapIdx]
  cases h : mean[i]? with
  | none => simp
  | some m =>
    have hi : i < mean.length := (List.getElem?_eq_some_iff.1 h).1
    simp [nth, List.getD_eq_getElem?_getD, hi]

example : noisyS [1, 2] (0.5 : ℝ) [2, -2] = [2, 1] := by
  simp [noisyS, nth]; norm_num

/-! ### `meshgrid(indexing='ij')` + `flatten`: the tensor product in row-major order, for ANY number of axes -/

section mesh
variable {β : Type}

theorem flatMap_replicate_length (x : List β) (m : ℕ) :
    (x.flatMap (fun v => List.replicate m v)).length = x.length * m := by
  induction x with
  | nil => simp
  | cons v x ih => simp only [List.flatMap_cons, List.length_append, List.length_replicate, ih, List.length_cons]; ring

theorem flatten_replicate_length (col : List β) (L : ℕ) :
    ((List.replicate L col).flatten).length = L * col.length := by
  induction L with
  | zero => simp
  | succ L ih => simp only [List.replicate_succ, List.flatten_cons, List.length_append, ih]; ring

theorem flatMap_replicate_getElem? (x : List β) (m p : ℕ) (hm : 0 < m) :
    (x.flatMap (fun v => List.replicate m v))[p]? = x[p / m]? := by
  induction x generalizing p with
  | nil => simp
  | cons v x ih =>
    simp only [List.flatMap_cons]
    by_cases hp : p < m
    · rw [List.getElem?_append_left (by simpa using hp)]
      simp [Nat.div_eq_of_lt hp, hp]
    · have hp' : m ≤ p := by omega
      rw [List.getElem?_append_right (by simpa using hp')]
      simp only [List.length_replicate]
      rw [ih]
      have : p / m = (p - m) / m + 1 := by
        conv_lhs => rw [← Nat.sub_add_cancel hp']
        exact Nat.add_div_right _ hm
      rw [this]; simp

theorem flatten_replicate_getElem? (col : List β) (L p : ℕ) (hp : p < L * col.length) :
    ((List.replicate L col).flatten)[p]? = col[p % col.length]? := by
  induction L generalizing p with
  | zero => simp at hp
  | succ L ih =>
    simp only [List.replicate_succ, List.flatten_cons]
    by_cases h : p < col.length
    · rw [List.getElem?_append_left h, Nat.mod_eq_of_lt h]
    · have h' : col.length ≤ p := by omega
      rw [List.getElem?_append_right h', ih _ (by rw [Nat.succ_mul] at hp; omega), ← Nat.mod_eq_sub_mod h']

/-- one component per axis -/
theorem mesh_length (xs : List (List β)) : (mesh xs).length = xs.length := by
  induction xs with
  | nil => rfl
  | cons x rest ih => simp [mesh, ih]

/-- every component has as many entries as the grid has points -/
theorem mesh_col_length (xs : List (List β)) : ∀ col ∈ mesh xs, col.length = prodLen xs := by
  induction xs with
  | nil => intro col h; simp [mesh] at h
  | cons x rest ih =>
    intro col h
    simp only [mesh, List.mem_cons, List.mem_map] at h
    rcases h with rfl | ⟨c, hc, rfl⟩
    · simp [prodLen]
    · simp [prodLen, ih c hc]

theorem getD_mem_of_lt (l : List (List β)) (k : ℕ) (hk : k < l.length) : l.getD k [] ∈ l := by
  rw [List.getD_eq_getElem?_getD, List.getElem?_eq_getElem hk]; simp

theorem prodLen_take_drop (xs : List (List β)) (k : ℕ) :
    prodLen xs = prodLen (xs.take k) * prodLen (xs.drop k) := by
  induction xs generalizing k with
  | nil => simp [prodLen]
  | cons x rest ih =>
    cases k with
    | zero => simp [prodLen]
    | succ k => simp only [List.take_succ_cons, List.drop_succ_cons, prodLen, ih k]; ring

theorem prodLen_drop (xs : List (List β)) (k : ℕ) (hk : k < xs.length) :
    prodLen (xs.drop k) = (xs.getD k []).length * prodLen (xs.drop (k + 1)) := by
  rw [List.drop_eq_getElem_cons hk, List.getD_eq_getElem?_getD, List.getElem?_eq_getElem hk]
  simp [prodLen]

/-- **grid = tensor product, N-D, by induction on the number of axes.**  Component `k` of the flattened
    mesh, at flat position `p`, is node number `(p / (product of the later axis sizes)) mod (size of axis k)`
    of axis `k` — the row-major (`'ij'`) unravelling of `p`. -/
theorem grid_is_product (xs : List (List β)) : ∀ (k p : ℕ), k < xs.length → p < prodLen xs →
    ((mesh xs).getD k [])[p]? =
      (xs.getD k [])[(p / prodLen (xs.drop (k + 1))) % (xs.getD k []).length]? := by
  induction xs with
  | nil => intro k p hk; simp at hk
  | cons x rest ih =>
    intro k p hk hp
    have hM : 0 < prodLen rest := by
      rcases Nat.eq_zero_or_pos (prodLen rest) with h | h
      · simp [prodLen, h] at hp
      · exact h
    cases k with
    | zero =>
      simp only [mesh, List.getD_cons_zero, List.drop_succ_cons, List.drop_zero]
      rw [flatMap_replicate_getElem? _ _ _ hM]
      have : p / prodLen rest < x.length := by
        rw [Nat.div_lt_iff_lt_mul hM]; simpa [prodLen] using hp
      rw [Nat.mod_eq_of_lt this]
    | succ k =>
      have hk' : k < rest.length := by simpa using hk
      have hkm : k < (mesh rest).length := by rw [mesh_length]; exact hk'
      simp only [mesh, List.getD_cons_succ, List.drop_succ_cons]
      have hcol : ((mesh rest).map (fun col => (List.replicate x.length col).flatten)).getD k []
          = (List.replicate x.length ((mesh rest).getD k [])).flatten := by
        simp [List.getD_eq_getElem?_getD, List.getElem?_map, List.getElem?_eq_getElem hkm]
      have hcl : ((mesh rest).getD k []).length = prodLen rest :=
        mesh_col_length rest _ (getD_mem_of_lt _ _ hkm)
      rw [hcol, flatten_replicate_getElem? _ _ _ (by rw [hcl]; simpa [prodLen] using hp), hcl,
        ih k (p % prodLen rest) hk' (Nat.mod_lt _ hM)]
      congr 1
      have hsplit : prodLen rest =
          prodLen (rest.drop (k + 1)) * ((rest.getD k []).length * prodLen (rest.take k)) := by
        rw [prodLen_take_drop rest k, prodLen_drop rest k hk']; ring
      rw [hsplit, Nat.mod_mul_right_div_self, Nat.mod_mul_right_mod]

/-- every entry of component `k` is one of the nodes of axis `k` (domain membership transfers to grids) -/
theorem mesh_mem (xs : List (List β)) (k : ℕ) (hk : k < xs.length) :
    ∀ v ∈ (mesh xs).getD k [], v ∈ xs.getD k [] := by
  intro v hv
  have hkm : k < (mesh xs).length := by rw [mesh_length]; exact hk
  have hcl := mesh_col_length xs _ (getD_mem_of_lt _ _ hkm)
  obtain ⟨p, hp, rfl⟩ := List.getElem_of_mem hv
  have := grid_is_product xs k p hk (by omega)
  rw [List.getElem?_eq_getElem hp] at this
  exact List.mem_of_getElem? this.symm

/-- 2-D reading: entry `i * m + j` of component 0 is node `i` of the first axis, of component 1 node `j`
    of the second axis (`m` = size of the second axis) -/
theorem grid_is_product_2d (x y : List β) (i j : ℕ) (hi : i < x.length) (hj : j < y.length) :
    ((mesh [x, y]).getD 0 [])[i * y.length + j]? = x[i]? ∧
    ((mesh [x, y]).getD 1 [])[i * y.length + j]? = y[j]? := by
  have hp : i * y.length + j < prodLen [x, y] := by
    simp only [prodLen, Nat.mul_one]
    calc i * y.length + j < i * y.length + y.length := by omega
      _ = (i + 1) * y.length := by ring
      _ ≤ x.length * y.length := Nat.mul_le_mul_right _ hi
  have hdiv : (i * y.length + j) / y.length = i :=
    Nat.div_eq_of_lt_le (by omega) (by rw [Nat.succ_mul]; omega)
  constructor
  · have := grid_is_product [x, y] 0 _ (by simp) hp
    simpa [prodLen, hdiv, Nat.mod_eq_of_lt hi] using this
  · have := grid_is_product [x, y] 1 _ (by simp) hp
    simpa [prodLen, Nat.mul_add_mod_of_lt hj] using this

/-- 3-D reading: entry `(i * m + j) * l + k` is node `(i, j, k)` -/
theorem grid_is_product_3d (x y z : List β) (i j k : ℕ) (hi : i < x.length) (hj : j < y.length) (hk : k < z.length) :
    ((mesh [x, y, z]).getD 0 [])[(i * y.length + j) * z.length + k]? = x[i]? ∧
    ((mesh [x, y, z]).getD 1 [])[(i * y.length + j) * z.length + k]? = y[j]? ∧
    ((mesh [x, y, z]).getD 2 [])[(i * y.length + j) * z.length + k]? = z[k]? := by
  have hij : i * y.length + j < x.length * y.length := by
    calc i * y.length + j < i * y.length + y.length := by omega
      _ = (i + 1) * y.length := by ring
      _ ≤ x.length * y.length := Nat.mul_le_mul_right _ hi
  have hp : (i * y.length + j) * z.length + k < prodLen [x, y, z] := by
    simp only [prodLen, Nat.mul_one]
    calc (i * y.length + j) * z.length + k < (i * y.length + j) * z.length + z.length := by omega
      _ = (i * y.length + j + 1) * z.length := by ring
      _ ≤ (x.length * y.length) * z.length := Nat.mul_le_mul_right _ hij
      _ = x.length * (y.length * z.length) := by ring
  have hdz : ((i * y.length + j) * z.length + k) / z.length = i * y.length + j :=
    Nat.div_eq_of_lt_le (by omega) (by rw [Nat.succ_mul]; omega)
  have hdy : (i * y.length + j) / y.length = i :=
    Nat.div_eq_of_lt_le (by omega) (by rw [Nat.succ_mul]; omega)
  refine ⟨?_, ?_, ?_⟩
  · have := grid_is_product [x, y, z] 0 _ (by simp) hp
    have e : ((i * y.length + j) * z.length + k) / (y.length * z.length) = i := by
      rw [Nat.mul_comm y.length, ← Nat.div_div_eq_div_mul, hdz, hdy]
    simpa [prodLen, e, Nat.mod_eq_of_lt hi] using this
  · have := grid_is_product [x, y, z] 1 _ (by simp) hp
    simpa [prodLen, hdz, Nat.mul_add_mod_of_lt hj] using this
  · have := grid_is_product [x, y, z] 2 _ (by simp) hp
    simpa [prodLen, Nat.mul_add_mod_of_lt hk] using this

example : mesh [[1, 2], [10, 20, 30]] = [[1, 1, 1, 2, 2, 2], [10, 20, 30, 10, 20, 30]] := by decide

end mesh

/-! ### noisy second-kind Chebyshev nodes: freshness -/

theorem affCos_inj (a b c c' : ℝ) (hab : a < b) (h : affCos a b c = affCos a b c') : c = c' := by
  unfold affCos at h
  push_cast at h
  have h2 : (b - a) * c = (b - a) * c' := by
    have := congrArg (fun t => t * 2) h
    simp only [div_mul_cancel_of_invertible] at this
    linarith
  exact mul_left_cancel₀ (by linarith : b - a ≠ 0) h2

/-- **fresh, 'chebyshev2-noisy', interior nodes** (`1 ≤ i ≤ n − 2`): the perturbed angle stays in `[0, π]`,
    where `cos` is injective, so the node determines the draw -/
theorem fresh_cheb2noisy (a b : ℝ) (hab : a < b) (n i : ℕ) (h1 : 1 ≤ i) (h2 : i + 2 ≤ n) (u u' : ℝ)
    (hu : 0 ≤ u ∧ u < 1) (hu' : 0 ≤ u' ∧ u' < 1)
    (h : cheb2NoisyNode a b n i u = cheb2NoisyNode a b n i u') : u = u' := by
  have hd : ((n - 1 : ℕ) : ℝ) = (n : ℝ) - 1 := cast_pred n (by omega)
  have hdpos : (0 : ℝ) < (n : ℝ) - 1 := by
    have : (2 : ℝ) ≤ (n : ℝ) := by exact_mod_cast (by omega : 2 ≤ n)
    linarith
  have hi1 : (1 : ℝ) ≤ (i : ℝ) := by exact_mod_cast h1
  have hin : (i : ℝ) + 1 ≤ (n : ℝ) - 1 := by
    have : ((i + 2 : ℕ) : ℝ) ≤ (n : ℝ) := by exact_mod_cast h2
    push_cast at this; linarith
  have hc := affCos_inj a b _ _ hab h
  simp only [fn_cos, fn_pi, hd] at hc
  push_cast at hc
  have hpi := Real.pi_pos
  have rng : ∀ v : ℝ, 0 ≤ v ∧ v < 1 →
      ((i : ℝ) + (v * 2 - 1)) / ((n : ℝ) - 1) * Real.pi ∈ Set.Icc 0 Real.pi := by
    intro v hv
    have t0 : 0 ≤ ((i : ℝ) + (v * 2 - 1)) / ((n : ℝ) - 1) := div_nonneg (by linarith [hv.1]) hdpos.le
    have t1 : ((i : ℝ) + (v * 2 - 1)) / ((n : ℝ) - 1) ≤ 1 := (div_le_one hdpos).mpr (by linarith [hv.2])
    constructor
    · positivity
    · nlinarith
  have := Real.injOn_cos (rng u hu) (rng u' hu') hc
  have h3 : ((i : ℝ) + (u * 2 - 1)) / ((n : ℝ) - 1) = ((i : ℝ) + (u' * 2 - 1)) / ((n : ℝ) - 1) :=
    mul_right_cancel₀ hpi.ne' this
  have h4 := (div_left_inj' hdpos.ne').1 h3
  linarith

theorem cos_fold_inj (d : ℝ) (hd : 1 ≤ d) (u u' : ℝ) (hu : 0 ≤ u ∧ u < 1) (hu' : 0 ≤ u' ∧ u' < 1)
    (hc : Real.cos ((u * 2 - 1) / d * Real.pi) = Real.cos ((u' * 2 - 1) / d * Real.pi)) : u = u' ∨ u + u' = 1 := by
  have hpi := Real.pi_pos
  have hd0 : (0 : ℝ) < d := by linarith
  have rng : ∀ v : ℝ, 0 ≤ v ∧ v < 1 → |(v * 2 - 1) / d * Real.pi| ∈ Set.Icc 0 Real.pi := by
    intro v hv
    refine ⟨abs_nonneg _, ?_⟩
    rw [abs_mul, abs_div, abs_of_pos hpi, abs_of_pos hd0]
    have t1 : |v * 2 - 1| / d ≤ 1 := by
      rw [div_le_one hd0]
      have : |v * 2 - 1| ≤ 1 := abs_le.2 ⟨by linarith [hv.1], by linarith [hv.2]⟩
      linarith
    nlinarith [abs_nonneg (v * 2 - 1)]
  rw [← Real.cos_abs ((u * 2 - 1) / d * Real.pi), ← Real.cos_abs ((u' * 2 - 1) / d * Real.pi)] at hc
  have habs := Real.injOn_cos (rng u hu) (rng u' hu') hc
  rcases abs_eq_abs.1 habs with e | e
  · left
    have h3 := mul_right_cancel₀ hpi.ne' e
    have h4 := (div_left_inj' hd0.ne').1 h3
    linarith
  · right
    have e' : (u * 2 - 1) / d * Real.pi = (-(u' * 2 - 1)) / d * Real.pi := by
      rw [e]; ring
    have h3 := mul_right_cancel₀ hpi.ne' e'
    have h4 := (div_left_inj' hd0.ne').1 h3
    linarith

/-- **fresh, 'chebyshev2-noisy', first node** (`i = 0`): the angle range straddles `0`, where `cos` folds, so
    the node fixes the draw up to the reflection `u ↦ 1 − u` (a null set of coincidences) -/
theorem fresh_cheb2noisy_first (a b : ℝ) (hab : a < b) (n : ℕ) (hn : 2 ≤ n) (u u' : ℝ)
    (hu : 0 ≤ u ∧ u < 1) (hu' : 0 ≤ u' ∧ u' < 1)
    (h : cheb2NoisyNode a b n 0 u = cheb2NoisyNode a b n 0 u') : u = u' ∨ u + u' = 1 := by
  have hd : ((n - 1 : ℕ) : ℝ) = (n : ℝ) - 1 := cast_pred n (by omega)
  have hdpos : (1 : ℝ) ≤ (n : ℝ) - 1 := by
    have : (2 : ℝ) ≤ (n : ℝ) := by exact_mod_cast hn
    linarith
  have hc := affCos_inj a b _ _ hab h
  simp only [fn_cos, fn_pi, hd] at hc
  push_cast at hc
  simp only [zero_add] at hc
  exact cos_fold_inj _ hdpos u u' hu hu' hc

/-- **fresh, 'chebyshev2-noisy', last node** (`i = n − 1`): the same fold, around `π` -/
theorem fresh_cheb2noisy_last (a b : ℝ) (hab : a < b) (n : ℕ) (hn : 2 ≤ n) (u u' : ℝ)
    (hu : 0 ≤ u ∧ u < 1) (hu' : 0 ≤ u' ∧ u' < 1)
    (h : cheb2NoisyNode a b n (n - 1) u = cheb2NoisyNode a b n (n - 1) u') : u = u' ∨ u + u' = 1 := by
  have hd : ((n - 1 : ℕ) : ℝ) = (n : ℝ) - 1 := cast_pred n (by omega)
  have hdpos : (1 : ℝ) ≤ (n : ℝ) - 1 := by
    have : (2 : ℝ) ≤ (n : ℝ) := by exact_mod_cast hn
    linarith
  have hne : (n : ℝ) - 1 ≠ 0 := by linarith
  have hc := affCos_inj a b _ _ hab h
  simp only [fn_cos, fn_pi, hd] at hc
  push_cast at hc
  have shift : ∀ v : ℝ, ((n : ℝ) - 1 + (v * 2 - 1)) / ((n : ℝ) - 1) * Real.pi
      = (v * 2 - 1) / ((n : ℝ) - 1) * Real.pi + Real.pi := by
    intro v; field_simp; ring
  rw [shift u, shift u', Real.cos_add_pi, Real.cos_add_pi] at hc
  exact cos_fold_inj _ hdpos u u' hu hu' (neg_inj.1 hc)

/-! ### GeneratorND noise scales -/

theorem axis_nodes_length (ax : Axis ℝ) (u : List ℝ) : (ax.nodes u).1.length = ax.n ∧ (ax.nodes u).2.length = ax.n := by
  unfold Axis.nodes
  cases ax.m <;> simp [linspace, uniform, logspace, expspace, cheb1, cheb2]

/-- the noise scale of every node of an 'equally-spaced' / Chebyshev / 'log-spaced' axis is positive (default
    scale, `a < b`; positive lower bound for log spacing) — with `fresh_noisyT`: these axes are fresh -/
theorem nd_std_pos (ax : Axis ℝ) (hab : ax.a < ax.b) (hn : 0 < ax.n) (hnoise : ax.noise = none)
    (hm : ax.m = .eq ∨ ax.m = .cheb1 ∨ ax.m = .cheb2 ∨ (ax.m = .log ∧ 0 < ax.a)) (u : List ℝ) :
    ∀ s ∈ (ax.nodes u).2, 0 < s := by
  have hs : 0 < ax.std := by
    unfold Axis.std; rw [hnoise]; exact defaultStd_pos _ _ hab _ hn
  intro s hmem
  rcases hm with h | h | h | ⟨h, ha⟩
  · simp only [Axis.nodes, h, List.mem_map] at hmem
    obtain ⟨_, _, rfl⟩ := hmem
    push_cast; linarith
  · simp only [Axis.nodes, h, List.mem_map] at hmem
    obtain ⟨_, _, rfl⟩ := hmem
    push_cast; linarith
  · simp only [Axis.nodes, h, List.mem_map] at hmem
    obtain ⟨_, _, rfl⟩ := hmem
    push_cast; linarith
  · simp only [Axis.nodes, h, List.mem_map, logspace, List.mem_range] at hmem
    obtain ⟨_, ⟨i, _, rfl⟩, rfl⟩ := hmem
    exact mul_pos hs (log_operands_pos _ _ ha hab.le _ _).2.2

/-- 'exp-spaced': the scale `|noise_rstd · x|` is never negative (the operand `torch.normal` insists on) … -/
theorem nd_exp_std_nonneg (ax : Axis ℝ) (hm : ax.m = .exp) (u : List ℝ) : ∀ s ∈ (ax.nodes u).2, 0 ≤ s := by
  intro s hmem
  simp only [Axis.nodes, hm, List.mem_map] at hmem
  obtain ⟨_, _, rfl⟩ := hmem
  exact abs_nonneg _

/-- … positive on a positive domain (nodes `≥ a > 0`), so those axes are fresh … -/
theorem nd_exp_std_pos (ax : Axis ℝ) (hm : ax.m = .exp) (hbase : 1 < ax.base) (ha : 0 < ax.a) (hab : ax.a < ax.b)
    (hn : 0 < ax.n) (hnoise : ax.noise = none) (u : List ℝ) : ∀ s ∈ (ax.nodes u).2, 0 < s := by
  have hs : 0 < ax.std := by
    unfold Axis.std; rw [hnoise]; exact defaultStd_pos _ _ hab _ hn
  intro s hmem
  simp only [Axis.nodes, hm, List.mem_map, expspace, List.mem_range] at hmem
  obtain ⟨_, ⟨i, hi, rfl⟩, rfl⟩ := hmem
  have := (expNode_mem_Icc ax.base ax.a ax.b hbase hab.le ax.n i hi).1
  simp only [fn_abs]
  exact abs_pos.2 (mul_pos hs (lt_of_lt_of_le ha this)).ne'

/-- … and zero at a node that is exactly `0`: with `r_min = 0` the first node never moves (with a single-node
    grid the whole axis is frozen) — reported to the lead as a borderline finding -/
theorem nd_exp_std_zero_witness :
    ((⟨.exp, 1, 0, 1, 10, none⟩ : Axis ℝ).nodes []) = ([0], [0]) := by
  have h := expNode_zero 10 0 1 (by norm_num) 1
  simp [Axis.nodes, expspace, h]

/-! ### GeneratorSpherical -/

theorem sgn_cases (k : ℕ) (hk : k ≤ 1) : (sgn k : ℝ) = -1 ∨ (sgn k : ℝ) = 1 := by
  have hk' : k = 0 ∨ k = 1 := by omega
  rcases hk' with rfl | rfl
  · left; simp [sgn]
  · right; simp [sgn]; norm_num

theorem clamp1_mem (z : ℝ) : clamp1 z ∈ Set.Icc (-1 : ℝ) 1 := by
  unfold clamp1
  push_cast
  exact ⟨le_min (le_max_right _ _) (by norm_num), min_le_right _ _⟩

/-- **θ ∈ [0, π]** for all draws -/
theorem spherical_theta_mem (a b c : ℝ) (kz : ℕ) : sphTheta a b c kz ∈ Set.Icc 0 Real.pi := by
  simp only [sphTheta, fn_acos]
  exact ⟨Real.arccos_nonneg _, Real.arccos_le_pi _⟩

/-- **φ ∈ [0, 2π)** for all draws: `atan2` has range `(−π, π]` -/
theorem spherical_phi_mem_Ico (a b c : ℝ) (kx ky : ℕ) : sphPhi a b c kx ky ∈ Set.Ico 0 (2 * Real.pi) := by
  simp only [sphPhi, fn_atan2, fn_pi]
  have h1 := Complex.arg_le_pi ⟨sphCart a b c a kx, sphCart a b c b ky⟩
  have h2 := Complex.neg_pi_lt_arg ⟨sphCart a b c a kx, sphCart a b c b ky⟩
  constructor <;> linarith

/-- **r ∈ [r_min, r_max]** for both radial laws, for every uniform draw (`0 ≤ r_min ≤ r_max` is what the
    constructor enforces, see `ctorOk_sph`) -/
theorem spherical_r_mem (c : CfgS ℝ) (h0 : 0 ≤ c.rmin) (h1 : c.rmin ≤ c.rmax) (u : ℝ) (hu : 0 ≤ u ∧ u < 1) :
    sphR c u ∈ Set.Icc c.rmin c.rmax := by
  have hR : 0 ≤ c.rmax := le_trans h0 h1
  have hd : 0 ≤ c.rmax * c.rmax - c.rmin * c.rmin := by nlinarith
  have p0 := mul_nonneg hd hu.1
  have p1 := mul_le_of_le_one_right hd hu.2.le
  unfold sphR
  split
  · simp only [fn_sqrt]
    constructor
    · calc c.rmin = Real.sqrt (c.rmin * c.rmin) := (Real.sqrt_mul_self h0).symm
        _ ≤ _ := Real.sqrt_le_sqrt (by linarith)
    · calc _ ≤ Real.sqrt (c.rmax * c.rmax) := Real.sqrt_le_sqrt (by linarith)
        _ = c.rmax := Real.sqrt_mul_self hR
  · have q0 := mul_nonneg (sub_nonneg.2 h1) hu.1
    have q1 := mul_le_of_le_one_right (sub_nonneg.2 h1) hu.2.le
    constructor <;> linarith

/-- **no-NaN, spherical**: every operand stays in the domain of its operation — the denominator is non-zero,
    the three `sqrt` operands are non-negative, the `acos` operand is in `[-1, 1]` (because of the clamp), `atan2`
    is evaluated away from the origin, the radial `sqrt` operand is non-negative.  `0 < a + b + c` is an explicit
    hypothesis: three uniform draws that are all exactly `0` make the real code compute `0/0`. -/
theorem spherical_operands_ok (a b c : ℝ) (ha : 0 ≤ a) (hb : 0 ≤ b) (hc : 0 ≤ c) (hden : 0 < a + b + c)
    (kx ky kz : ℕ) (hkx : kx ≤ 1) (hky : ky ≤ 1) (cfg : CfgS ℝ) (h0 : 0 ≤ cfg.rmin) (h1 : cfg.rmin ≤ cfg.rmax)
    (u : ℝ) (hu : 0 ≤ u ∧ u < 1) :
    a + b + c ≠ 0 ∧ 0 ≤ a / (a + b + c) ∧ 0 ≤ b / (a + b + c) ∧ 0 ≤ c / (a + b + c) ∧
    clamp1 (sphCart a b c c kz) ∈ Set.Icc (-1 : ℝ) 1 ∧
    sphCart a b c a kx ≠ 0 ∧ sphCart a b c b ky ≠ 0 ∧
    0 ≤ (cfg.rmax * cfg.rmax - cfg.rmin * cfg.rmin) * u + cfg.rmin * cfg.rmin := by
  have key : ∀ w : ℝ, ∀ k : ℕ, k ≤ 1 → sphCart a b c w k ≠ 0 := by
    intro w k hk
    unfold sphCart
    simp only [fn_sqrt]
    have : (0 : ℝ) < Real.sqrt (w / (a + b + c)) + 1e-6 := by
      have := Real.sqrt_nonneg (w / (a + b + c))
      norm_num; linarith
    rcases sgn_cases k hk with e | e <;> rw [e] <;> intro hz <;> nlinarith
  refine ⟨hden.ne', div_nonneg ha hden.le, div_nonneg hb hden.le, div_nonneg hc hden.le, clamp1_mem _,
    key a kx hkx, key b ky hky, ?_⟩
  have hd : 0 ≤ cfg.rmax * cfg.rmax - cfg.rmin * cfg.rmin := by nlinarith
  have p0 := mul_nonneg hd hu.1
  have p2 := mul_nonneg h0 h0
  linarith

/-- why the clamp is needed (the defect repaired in 5016450): draws `a = b = 0`, `c = 1`, sign `+` give
    `z = 1 + 10⁻⁶ > 1`, outside the domain of `acos` -/
theorem spherical_unclamped_exceeds_one : (1 : ℝ) < sphCart (0 : ℝ) 0 1 1 1 := by
  simp [sphCart, sgn]; norm_num

/-- **fresh, spherical**: the radius is an injective function of its uniform draw (both laws), so a new draw
    gives a new point; every call consumes seven new draws and the model keeps no state between calls -/
theorem spherical_fresh_r (c : CfgS ℝ) (h0 : 0 ≤ c.rmin) (h1 : c.rmin < c.rmax) (u u' : ℝ) (hu : 0 ≤ u) (hu' : 0 ≤ u')
    (h : sphR c u = sphR c u') : u = u' := by
  have hR : 0 < c.rmax := lt_of_le_of_lt h0 h1
  have hd : 0 < c.rmax * c.rmax - c.rmin * c.rmin := by nlinarith
  unfold sphR at h
  split at h
  · simp only [fn_sqrt] at h
    have e := (Real.sqrt_inj (by nlinarith [mul_nonneg h0 h0]) (by nlinarith [mul_nonneg h0 h0])).1 h
    have : (c.rmax * c.rmax - c.rmin * c.rmin) * u = (c.rmax * c.rmax - c.rmin * c.rmin) * u' := by linarith
    exact mul_left_cancel₀ hd.ne' this
  · have : (c.rmax - c.rmin) * u = (c.rmax - c.rmin) * u' := by linarith
    exact mul_left_cancel₀ (by linarith : c.rmax - c.rmin ≠ 0) this

example : genSph (⟨.radius, 1, 1, 3⟩ : CfgS ℝ) [.f [0], .f [0], .f [1], .n [1], .n [1], .n [1], .f [0.5]]
    = [[2], [Real.arccos (min (max (1 + 1e-6) (-1)) 1)], [-Complex.arg ⟨1e-6, 1e-6⟩ + Real.pi]] := by
  simp [genSph, sphR, sphTheta, sphPhi, sphCart, sgn, clamp1, dF, dN, nth, Draw.fl, Draw.nat]
  norm_num

/-! ### constructor guards -/

/-- a 1-D log method that got past `_compute_log_negative` has positive bounds -/
theorem ctorOk_log_pos (c : Cfg1 ℝ) (hm : c.m = .log ∨ c.m = .logNoisy) (h : c.ctorOk = true) :
    0 < c.a ∧ 0 < c.b := by
  unfold Cfg1.ctorOk at h
  rcases hm with e | e <;> rw [e] at h <;> simp at h <;> exact h

/-- a spherical generator that got past the range check has `0 ≤ r_min ≤ r_max` -/
theorem ctorOk_sph (c : CfgS ℝ) (h : c.ctorOk = true) : 0 ≤ c.rmin ∧ c.rmin ≤ c.rmax := by
  unfold CfgS.ctorOk at h
  simp at h
  exact h

/-! ### the five classes together: tensor count, lengths, `requires_grad`, determinism -/

/-- the `k`-th recorded draw has the length the consumption table says -/
def fitsAt (ds : List (Draw ℝ)) (k : ℕ) : Kind × ℕ → Prop
  | (.rand, n) => (dF ds k).length = n
  | (.normal, n) => (dF ds k).length = n
  | (.perm, n) => (dN ds k).length = n
  | (.int2, n) => (dN ds k).length = n

/-- draws shaped as the RNG primitives return them (`torch.rand(n)` has `n` entries, …) -/
def Fits (ds : List (Draw ℝ)) (shape : List (Kind × ℕ)) : Prop :=
  ∀ k (h : k < shape.length), fitsAt ds k shape[k]

theorem requires_grad_all (cfg : Cfg ℝ) : cfg.requiresGrad = true := rfl

theorem length_noisyS (mean : List ℝ) (s : ℝ) (z : List ℝ) : (noisyS mean s z).length = mean.length := by
  simp [noisyS]
theorem length_noisyT (mean std z : List ℝ) : (noisyT mean std z).length = mean.length := by
  simp [noisyT]
theorem length_noisy3 (g : List ℝ) (s : ℝ) (z : List ℝ) : (noisy3 g s z).length = g.length := by
  simp [noisy3]

theorem axes2_shape (c : Cfg2 ℝ) (ctor call : List (Draw ℝ)) (hf : Fits ctor c.ctorShape) :
    ∃ x y, c.axes ctor call = [x, y] ∧ x.length = c.n0 ∧ y.length = c.n1 := by
  unfold Cfg2.axes
  cases hm : c.m
  case lhs =>
    have h1 := hf 1 (by simp [Cfg2.ctorShape, hm])
    have h3 := hf 3 (by simp [Cfg2.ctorShape, hm])
    simp only [Cfg2.ctorShape, hm, fitsAt] at h1 h3
    exact ⟨_, _, rfl, by simpa [lhs] using h1, by simpa [lhs] using h3⟩
  all_goals exact ⟨_, _, rfl, by simp [linspace, cheb1, cheb2, cheb2Noisy], by simp [linspace, cheb1, cheb2, cheb2Noisy]⟩

theorem axes3_shape (c : Cfg3 ℝ) (ctor : List (Draw ℝ)) (hf : Fits ctor c.ctorShape) :
    ∃ x y z, c.axes ctor = [x, y, z] ∧ x.length = c.n0 ∧ y.length = c.n1 ∧ z.length = c.n2 := by
  unfold Cfg3.axes
  cases hm : c.m
  case lhs =>
    have h1 := hf 1 (by simp [Cfg3.ctorShape, hm])
    have h3 := hf 3 (by simp [Cfg3.ctorShape, hm])
    have h5 := hf 5 (by simp [Cfg3.ctorShape, hm])
    simp only [Cfg3.ctorShape, hm, fitsAt] at h1 h3 h5
    exact ⟨_, _, _, rfl, by simpa [lhs] using h1, by simpa [lhs] using h3, by simpa [lhs] using h5⟩
  all_goals exact ⟨_, _, _, rfl, by simp [linspace, cheb1, cheb2], by simp [linspace, cheb1, cheb2],
    by simp [linspace, cheb1, cheb2]⟩

theorem ndAxes_length (axes : List (Axis ℝ)) : ∀ ds, (ndAxes axes ds).length = axes.length := by
  induction axes with
  | nil => intro ds; rfl
  | cons ax rest ih =>
    intro ds
    unfold ndAxes
    split <;> simp [ih]

theorem ndAxes_prodLen (axes : List (Axis ℝ)) : ∀ ds,
    prodLen ((ndAxes axes ds).map (·.1)) = (axes.map (·.n)).foldr (· * ·) 1 ∧
    prodLen ((ndAxes axes ds).map (·.2)) = (axes.map (·.n)).foldr (· * ·) 1 := by
  induction axes with
  | nil => intro ds; simp [ndAxes, prodLen]
  | cons ax rest ih =>
    intro ds
    unfold ndAxes
    split <;> simp [prodLen, ih, axis_nodes_length]

theorem getD_mapIdx_mem {γ δ : Type} (l : List γ) (f : ℕ → γ → δ) (x : δ) (hx : x ∈ l.mapIdx f) :
    ∃ k, ∃ h : k < l.length, x = f k l[k] := by
  obtain ⟨k, hk, rfl⟩ := List.getElem_of_mem hx
  have hk' : k < l.length := by simpa using hk
  exact ⟨k, hk', by simp⟩

/-- **one tensor per dimension** -/
theorem dims_eq (cfg : Cfg ℝ) (ctor call : List (Draw ℝ)) (hc : Fits ctor cfg.ctorShape) :
    (run cfg ctor call).length = cfg.dims := by
  cases cfg with
  | g1 c => simp only [run, gen1d, Cfg.dims]; cases c.m <;> rfl
  | g2 c =>
    obtain ⟨x, y, h, -, -⟩ := axes2_shape c ctor call hc
    simp only [run, gen2d, Cfg.dims, h]
    cases c.m <;> simp [mesh]
  | g3 c =>
    obtain ⟨x, y, z, h, -, -, -⟩ := axes3_shape c ctor hc
    simp only [run, gen3d, Cfg.dims, h]
    cases c.m <;> simp [mesh]
  | nd c =>
    simp only [run, genNd, Cfg.dims, CfgN.gridR]
    split <;> simp [mesh_length, ndAxes_length]
  | sph c => simp [run, genSph, Cfg.dims]

/-- **every returned tensor has exactly `generator.size` entries** (draws shaped as the RNG returns them) -/
theorem len_eq_size (cfg : Cfg ℝ) (ctor call : List (Draw ℝ)) (hc : Fits ctor cfg.ctorShape)
    (hk : Fits call cfg.callShape) : ∀ col ∈ run cfg ctor call, col.length = cfg.size := by
  cases cfg with
  | g1 c =>
    intro col hcol
    simp only [run, gen1d, Cfg.size] at hcol ⊢
    cases hm : c.m <;> rw [hm] at hcol <;> simp only [List.mem_singleton] at hcol <;> subst hcol
    case lhs =>
      have h1 := hk 1 (by simp [Cfg.callShape, Cfg1.callShape, hm])
      simp only [Cfg.callShape, Cfg1.callShape, hm, fitsAt] at h1
      simpa [lhs] using h1
    all_goals simp [length_noisyS, uniform, linspace, logspace, cheb1, cheb2, cheb2Noisy]
  | g2 c =>
    obtain ⟨x, y, h, hx, hy⟩ := axes2_shape c ctor call hc
    have hp : prodLen [x, y] = c.n0 * c.n1 := by simp [prodLen, hx, hy]
    have hcols : ∀ col ∈ mesh [x, y], col.length = c.n0 * c.n1 := fun col hcol => by
      rw [mesh_col_length _ col hcol, hp]
    have h0 : ((mesh [x, y]).getD 0 []).length = c.n0 * c.n1 := hcols _ (getD_mem_of_lt _ _ (by simp [mesh_length]))
    have h1 : ((mesh [x, y]).getD 1 []).length = c.n0 * c.n1 := hcols _ (getD_mem_of_lt _ _ (by simp [mesh_length]))
    intro col hcol
    simp only [run, gen2d, Cfg.size, h] at hcol ⊢
    cases hm : c.m <;> rw [hm] at hcol
    case eqNoisy =>
      simp only [List.mem_cons, List.not_mem_nil, or_false] at hcol
      rcases hcol with rfl | rfl
      · rw [length_noisyS, h0]
      · rw [length_noisyS, h1]
    all_goals exact hcols col hcol
  | g3 c =>
    obtain ⟨x, y, z, h, hx, hy, hz⟩ := axes3_shape c ctor hc
    have hp : prodLen [x, y, z] = c.n0 * c.n1 * c.n2 := by simp [prodLen, hx, hy, hz]; ring
    have hcols : ∀ col ∈ mesh [x, y, z], col.length = c.n0 * c.n1 * c.n2 := fun col hcol => by
      rw [mesh_col_length _ col hcol, hp]
    have g : ∀ k, k < 3 → ((mesh [x, y, z]).getD k []).length = c.n0 * c.n1 * c.n2 := fun k hk3 =>
      hcols _ (getD_mem_of_lt _ _ (by simp [mesh_length]; omega))
    intro col hcol
    simp only [run, gen3d, Cfg.size, h] at hcol ⊢
    cases hm : c.m <;> rw [hm] at hcol
    case eqNoisy =>
      simp only [List.mem_cons, List.not_mem_nil, or_false] at hcol
      rcases hcol with rfl | rfl | rfl
      · rw [length_noisy3, g 0 (by omega)]
      · rw [length_noisy3, g 1 (by omega)]
      · rw [length_noisy3, g 2 (by omega)]
    all_goals exact hcols col hcol
  | nd c =>
    have hcols : ∀ col ∈ c.gridR ctor, col.length = c.size := fun col hcol => by
      rw [CfgN.gridR] at hcol
      rw [mesh_col_length _ col hcol, (ndAxes_prodLen c.axes ctor).1]; rfl
    intro col hcol
    simp only [run, genNd, Cfg.size] at hcol ⊢
    split at hcol
    · obtain ⟨k, hk', rfl⟩ := getD_mapIdx_mem _ _ _ hcol
      rw [length_noisyT]
      exact hcols _ (List.getElem_mem hk')
    · exact hcols col hcol
  | sph c =>
    intro col hcol
    simp only [run, genSph, Cfg.size, List.mem_cons, List.not_mem_nil, or_false] at hcol ⊢
    rcases hcol with rfl | rfl | rfl <;> simp

/-- the methods whose points are fixed once the generator is built (for Generator2D/3D 'latin-hypercube' the
    sample is drawn by the constructor; for GeneratorND every method without `noisy`) -/
def fixedMethod : Cfg ℝ → Bool
  | .g1 c => match c.m with
    | .eq | .log | .cheb1 | .cheb2 => true
    | _ => false
  | .g2 c => match c.m with
    | .eq | .cheb1 | .cheb2 | .lhs => true
    | _ => false
  | .g3 c => match c.m with
    | .eq | .cheb1 | .cheb2 | .lhs => true
    | _ => false
  | .nd c => !c.noisy
  | .sph _ => false

/-- **deterministic methods return identical points on every call**: the output does not depend on the
    call's draws — and the call consumes none -/
theorem deterministic (cfg : Cfg ℝ) (h : fixedMethod cfg = true) (ctor call call' : List (Draw ℝ)) :
    run cfg ctor call = run cfg ctor call' ∧ cfg.callShape = [] := by
  cases cfg with
  | g1 c =>
    simp only [fixedMethod] at h
    simp only [run, gen1d, Cfg.callShape, Cfg1.callShape]
    cases hm : c.m <;> simp_all
  | g2 c =>
    simp only [fixedMethod] at h
    simp only [run, gen2d, Cfg2.axes, Cfg.callShape, Cfg2.callShape]
    cases hm : c.m <;> simp_all
  | g3 c =>
    simp only [fixedMethod] at h
    simp only [run, gen3d, Cfg.callShape, Cfg3.callShape]
    cases hm : c.m <;> simp_all
  | nd c =>
    simp only [fixedMethod, Bool.not_eq_true'] at h
    simp [run, genNd, Cfg.callShape, CfgN.callShape, h]
  | sph c => simp [fixedMethod] at h

/-- the grid classes return the mesh of their per-axis node lists (so `grid_is_product` applies to them) -/
theorem gen2d_is_mesh (c : Cfg2 ℝ) (hm : c.m ≠ .eqNoisy) (ctor call : List (Draw ℝ)) :
    gen2d c ctor call = mesh (c.axes ctor call) := by
  unfold gen2d
  cases h : c.m <;> simp_all

theorem gen3d_is_mesh (c : Cfg3 ℝ) (hm : c.m ≠ .eqNoisy) (ctor call : List (Draw ℝ)) :
    gen3d c ctor call = mesh (c.axes ctor) := by
  unfold gen3d
  cases h : c.m <;> simp_all

theorem genNd_is_mesh (c : CfgN ℝ) (hm : c.noisy = false) (ctor call : List (Draw ℝ)) :
    genNd c ctor call = mesh ((ndAxes c.axes ctor).map (·.1)) := by
  simp [genNd, hm, CfgN.gridR]

/-- non-vacuity of `Fits` / `fixedMethod`: a 2-D Latin-hypercube generator with concrete constructor draws -/
example : Fits [.f [0.5, 0.25], .n [1, 0], .f [0.75], .n [0]]
    (Cfg.g2 (⟨.lhs, 2, 1, 0, 0, 1, 1, none⟩ : Cfg2 ℝ)).ctorShape := by
  intro k hk
  simp only [Cfg.ctorShape, Cfg2.ctorShape, List.length_cons, List.length_nil] at hk
  have : k = 0 ∨ k = 1 ∨ k = 2 ∨ k = 3 := by omega
  rcases this with rfl | rfl | rfl | rfl <;> simp [Cfg.ctorShape, Cfg2.ctorShape, fitsAt, dF, dN, Draw.fl, Draw.nat]
example : fixedMethod (Cfg.g2 (⟨.lhs, 2, 1, 0, 0, 1, 1, none⟩ : Cfg2 ℝ)) = true := by decide

/-! ### in-domain, assembled per class (all non-noisy methods; draws in the support of the RNG primitives) -/

/-- every float draw of the list is a `torch.rand` value -/
def UnitDraws (ds : List (Draw ℝ)) : Prop := ∀ k, ∀ u ∈ dF ds k, 0 ≤ u ∧ u < 1

theorem perm_lt (perm : List ℕ) (n : ℕ) (hp : perm.Perm (List.range n)) : ∀ p ∈ perm, p < n :=
  fun p hpm => List.mem_range.1 (hp.mem_iff.1 hpm)

/-- **Generator1D**: every method except the two additive-noise ones stays in `[t_min, t_max]` -/
theorem gen1d_in_domain (c : Cfg1 ℝ) (hab : c.a < c.b) (hm : c.m ≠ .eqNoisy ∧ c.m ≠ .logNoisy)
    (hlog : c.m = .log → 0 < c.a) (call : List (Draw ℝ)) (hu : UnitDraws call)
    (hp : c.m = .lhs → (dN call 1).Perm (List.range c.n)) :
    ∀ col ∈ gen1d c call, ∀ x ∈ col, x ∈ Set.Icc c.a c.b := by
  intro col hcol
  unfold gen1d at hcol
  cases hmm : c.m <;> rw [hmm] at hcol <;> simp only [List.mem_singleton] at hcol <;> subst hcol
  · exact fun x hx => Set.Ico_subset_Icc_self (uniform_mem_Ico _ _ hab _ _ (hu 0) x hx)
  · exact linspace_mem_Icc _ _ hab.le _
  · exact absurd hmm hm.1
  · exact logspace_mem_Icc _ _ (hlog hmm) hab.le _
  · exact absurd hmm hm.2
  · exact cheb1_mem_Icc _ _ hab.le _
  · exact cheb2_mem_Icc _ _ hab.le _
  · exact cheb2noisy_mem_Icc _ _ hab.le _ _
  · exact lhs_mem_Icc _ _ hab _ _ _ (hu 0) (perm_lt _ _ (hp hmm))

/-- **Generator2D**: component `k` of every non-additive-noise method stays in `[min_k, max_k]` -/
theorem gen2d_in_domain (c : Cfg2 ℝ) (h0 : c.a0 < c.b0) (h1 : c.a1 < c.b1) (hm : c.m ≠ .eqNoisy)
    (ctor call : List (Draw ℝ)) (hcu : UnitDraws ctor)
    (hp : c.m = .lhs → (dN ctor 1).Perm (List.range c.n0) ∧ (dN ctor 3).Perm (List.range c.n1)) :
    (∀ x ∈ (gen2d c ctor call).getD 0 [], x ∈ Set.Icc c.a0 c.b0) ∧
    (∀ x ∈ (gen2d c ctor call).getD 1 [], x ∈ Set.Icc c.a1 c.b1) := by
  rw [gen2d_is_mesh c hm]
  have hlen : (c.axes ctor call).length = 2 := by unfold Cfg2.axes; cases c.m <;> rfl
  have hx : ∀ x ∈ (c.axes ctor call).getD 0 [], x ∈ Set.Icc c.a0 c.b0 := by
    unfold Cfg2.axes
    cases hmm : c.m
    · exact linspace_mem_Icc _ _ h0.le _
    · exact absurd hmm hm
    · exact cheb1_mem_Icc _ _ h0.le _
    · exact cheb2_mem_Icc _ _ h0.le _
    · exact cheb2noisy_mem_Icc _ _ h0.le _ _
    · exact lhs_mem_Icc _ _ h0 _ _ _ (hcu 0) (perm_lt _ _ (hp hmm).1)
  have hy : ∀ x ∈ (c.axes ctor call).getD 1 [], x ∈ Set.Icc c.a1 c.b1 := by
    unfold Cfg2.axes
    cases hmm : c.m
    · exact linspace_mem_Icc _ _ h1.le _
    · exact absurd hmm hm
    · exact cheb1_mem_Icc _ _ h1.le _
    · exact cheb2_mem_Icc _ _ h1.le _
    · exact cheb2noisy_mem_Icc _ _ h1.le _ _
    · exact lhs_mem_Icc _ _ h1 _ _ _ (hcu 2) (perm_lt _ _ (hp hmm).2)
  exact ⟨fun x hxm => hx x (mesh_mem _ 0 (by omega) x hxm), fun x hxm => hy x (mesh_mem _ 1 (by omega) x hxm)⟩

/-- **Generator3D** -/
theorem gen3d_in_domain (c : Cfg3 ℝ) (h0 : c.a0 < c.b0) (h1 : c.a1 < c.b1) (h2 : c.a2 < c.b2) (hm : c.m ≠ .eqNoisy)
    (ctor call : List (Draw ℝ)) (hcu : UnitDraws ctor)
    (hp : c.m = .lhs → (dN ctor 1).Perm (List.range c.n0) ∧ (dN ctor 3).Perm (List.range c.n1) ∧
      (dN ctor 5).Perm (List.range c.n2)) :
    (∀ x ∈ (gen3d c ctor call).getD 0 [], x ∈ Set.Icc c.a0 c.b0) ∧
    (∀ x ∈ (gen3d c ctor call).getD 1 [], x ∈ Set.Icc c.a1 c.b1) ∧
    (∀ x ∈ (gen3d c ctor call).getD 2 [], x ∈ Set.Icc c.a2 c.b2) := by
  rw [gen3d_is_mesh c hm]
  have hlen : (c.axes ctor).length = 3 := by unfold Cfg3.axes; cases c.m <;> rfl
  have hx : ∀ x ∈ (c.axes ctor).getD 0 [], x ∈ Set.Icc c.a0 c.b0 := by
    unfold Cfg3.axes
    cases hmm : c.m
    · exact linspace_mem_Icc _ _ h0.le _
    · exact absurd hmm hm
    · exact cheb1_mem_Icc _ _ h0.le _
    · exact cheb2_mem_Icc _ _ h0.le _
    · exact lhs_mem_Icc _ _ h0 _ _ _ (hcu 0) (perm_lt _ _ (hp hmm).1)
  have hy : ∀ x ∈ (c.axes ctor).getD 1 [], x ∈ Set.Icc c.a1 c.b1 := by
    unfold Cfg3.axes
    cases hmm : c.m
    · exact linspace_mem_Icc _ _ h1.le _
    · exact absurd hmm hm
    · exact cheb1_mem_Icc _ _ h1.le _
    · exact cheb2_mem_Icc _ _ h1.le _
    · exact lhs_mem_Icc _ _ h1 _ _ _ (hcu 2) (perm_lt _ _ (hp hmm).2.1)
  have hz : ∀ x ∈ (c.axes ctor).getD 2 [], x ∈ Set.Icc c.a2 c.b2 := by
    unfold Cfg3.axes
    cases hmm : c.m
    · exact linspace_mem_Icc _ _ h2.le _
    · exact absurd hmm hm
    · exact cheb1_mem_Icc _ _ h2.le _
    · exact cheb2_mem_Icc _ _ h2.le _
    · exact lhs_mem_Icc _ _ h2 _ _ _ (hcu 4) (perm_lt _ _ (hp hmm).2.2)
  exact ⟨fun x hxm => hx x (mesh_mem _ 0 (by omega) x hxm), fun x hxm => hy x (mesh_mem _ 1 (by omega) x hxm),
    fun x hxm => hz x (mesh_mem _ 2 (by omega) x hxm)⟩

/-- what the property's quantifier asks of one N-D axis: `min < max`, positive bounds for log spacing,
    a base above one for exp spacing -/
def AxisOk (ax : Axis ℝ) : Prop := ax.a < ax.b ∧ (ax.m = .log → 0 < ax.a) ∧ (ax.m = .exp → 1 < ax.base)

theorem axis_nodes_in_domain (ax : Axis ℝ) (h : AxisOk ax) (u : List ℝ) (hu : ∀ v ∈ u, 0 ≤ v ∧ v < 1) :
    ∀ x ∈ (ax.nodes u).1, x ∈ Set.Icc ax.a ax.b := by
  obtain ⟨hab, hlog, hexp⟩ := h
  unfold Axis.nodes
  cases hm : ax.m
  · exact linspace_mem_Icc _ _ hab.le _
  · exact fun x hx => Set.Ico_subset_Icc_self (uniform_mem_Ico _ _ hab _ _ hu x hx)
  · exact logspace_mem_Icc _ _ (hlog hm) hab.le _
  · exact expspace_mem_Icc _ _ _ (hexp hm) hab.le _
  · exact cheb1_mem_Icc _ _ hab.le _
  · exact cheb2_mem_Icc _ _ hab.le _

theorem unitDraws_drop (ds : List (Draw ℝ)) (h : UnitDraws ds) : UnitDraws (ds.drop 1) := by
  intro k u hu
  have : dF (ds.drop 1) k = dF ds (k + 1) := by
    simp [dF, List.getD_eq_getElem?_getD]
  rw [this] at hu
  exact h _ u hu

theorem ndAxes_in_domain (axes : List (Axis ℝ)) (hok : ∀ ax ∈ axes, AxisOk ax) :
    ∀ ds, UnitDraws ds → ∀ k (hk : k < axes.length), ∀ x ∈ ((ndAxes axes ds).map (·.1)).getD k [],
      x ∈ Set.Icc axes[k].a axes[k].b := by
  induction axes with
  | nil => intro ds _ k hk; simp at hk
  | cons ax rest ih =>
    intro ds hds k hk
    have hax := hok ax (by simp)
    have hrest : ∀ a ∈ rest, AxisOk a := fun a ha => hok a (by simp [ha])
    unfold ndAxes
    split
    · cases k with
      | zero => exact axis_nodes_in_domain ax hax _ (hds 0)
      | succ k => exact ih hrest _ (unitDraws_drop ds hds) k (by simpa using hk)
    · cases k with
      | zero => exact axis_nodes_in_domain ax hax _ (by simp)
      | succ k => exact ih hrest _ hds k (by simpa using hk)

/-- **GeneratorND** without `noisy`: component `k` stays in `[r_min[k], r_max[k]]` for every method, any number
    of axes -/
theorem genNd_in_domain (c : CfgN ℝ) (hn : c.noisy = false) (hok : ∀ ax ∈ c.axes, AxisOk ax)
    (ctor call : List (Draw ℝ)) (hcu : UnitDraws ctor) (k : ℕ) (hk : k < c.axes.length) :
    ∀ x ∈ (genNd c ctor call).getD k [], x ∈ Set.Icc c.axes[k].a c.axes[k].b := by
  rw [genNd_is_mesh c hn]
  intro x hx
  have hlen : k < ((ndAxes c.axes ctor).map (·.1)).length := by simp [ndAxes_length, hk]
  exact ndAxes_in_domain c.axes hok ctor hcu k hk x (mesh_mem _ k hlen x hx)

/-- **fresh, Generator1D**: for 'uniform' and the two additive-noise methods, two calls that return the same
    points drew the same values (`n ≥ 1`, `t_min < t_max`, default noise scale) -/
theorem fresh_gen1d (c : Cfg1 ℝ) (hab : c.a < c.b) (hn : 0 < c.n) (hnoise : c.noise = none)
    (hm : c.m = .uniform ∨ c.m = .eqNoisy ∨ c.m = .logNoisy) (call call' : List (Draw ℝ))
    (hl : (dF call 0).length = c.n) (hl' : (dF call' 0).length = c.n)
    (h : gen1d c call = gen1d c call') : dF call 0 = dF call' 0 := by
  have hs : c.std ≠ 0 := by
    unfold Cfg1.std; rw [hnoise]; exact (defaultStd_pos _ _ hab _ hn).ne'
  unfold gen1d at h
  rcases hm with e | e | e <;> rw [e] at h <;> simp only [List.cons.injEq, and_true] at h
  · apply List.ext_getElem (by omega)
    intro i h1 h2
    have hi : i < c.n := by omega
    have := congrArg (fun l => l[i]?) h
    simp only [uniform, List.getElem?_map, List.getElem?_range hi, Option.map_some, Option.some.injEq,
      nth_eq_getElem _ i h1, nth_eq_getElem _ i h2] at this
    exact fresh_uniform _ _ _ _ hab this
  · exact fresh_noisyS _ _ _ _ hs (by simp [linspace, hl]) (by simp [linspace, hl']) h
  · exact fresh_noisyS _ _ _ _ hs (by simp [logspace, hl]) (by simp [logspace, hl']) h

example : AxisOk (⟨.exp, 4, -1, 2, 10, none⟩ : Axis ℝ) := by
  refine ⟨by norm_num, by simp, by intro; norm_num⟩
example : UnitDraws [.f [0.5, 0.25], .n [1, 0]] := by
  intro k u hu
  have : k = 0 ∨ k = 1 ∨ 2 ≤ k := by omega
  rcases this with rfl | rfl | h
  · simp [dF, Draw.fl] at hu; rcases hu with rfl | rfl <;> norm_num
  · simp [dF, Draw.fl] at hu
  · have : dF ([.f [0.5, 0.25], .n [1, 0]] : List (Draw ℝ)) k = [] := by
      simp [dF, List.getD_eq_getElem?_getD, List.getElem?_eq_none (by simpa using h : ([.f [0.5, 0.25], .n [1, 0]] : List (Draw ℝ)).length ≤ k), Draw.fl]
    rw [this] at hu; simp at hu

end NdeVerif.C07
