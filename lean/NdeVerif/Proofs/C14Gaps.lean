import NdeVerif.Proofs.C14
namespace NdeVerif.C14
open NdeVerif.Batch

theorem refill_of_full (src) (bs fuel : Nat) (s : BState) (h : ¬ firstLen s.cached < bs) :
    refill src bs fuel s = s := by
  cases fuel <;> simp [refill, h]

theorem refill_add (src) (bs : Nat) : ∀ a b s, refill src bs (a + b) s = refill src bs b (refill src bs a s) := by
  intro a
  induction a with
  | zero => intro b s; simp [refill]
  | succ a ih =>
    intro b s
    rw [show a + 1 + b = (a + b) + 1 by omega]
    simp only [refill]
    split
    · exact ih b _
    · rename_i h; exact (refill_of_full src bs b s h).symm

/-- one step of the loop never shortens the cache -/
theorem firstLen_step_ge (src) (n : Nat) (hwf : WF src n) (s : BState) (hs : s.cached.length = n) (hn : 0 < n) :
    firstLen (List.zipWith (· ++ ·) s.cached (src s.next)) = firstLen s.cached + firstLen (src s.next) :=
  firstLen_zipWith _ _ (by rw [hs, (hwf s.next).1]) (by omega)

theorem firstLen_refill_ge (src) (n bs : Nat) (hn : 0 < n) (hwf : WF src n) :
    ∀ fuel s, s.cached.length = n → firstLen s.cached ≤ firstLen (refill src bs fuel s).cached := by
  intro fuel
  induction fuel with
  | zero => intro s _; simp [refill]
  | succ fuel ih =>
    intro s hs
    simp only [refill]
    split
    · have := ih ⟨List.zipWith (· ++ ·) s.cached (src s.next), s.next + 1⟩ (by simp [hs, (hwf s.next).1])
      simp only [firstLen_step_ge src n hwf s hs hn] at this
      omega
    · exact Nat.le_refl _

/-- after `j + 1` iterations ending with a non-empty draw, the loop has exited full or the cache has grown -/
theorem refill_progress (src) (n bs : Nat) (hn : 0 < n) (hwf : WF src n) :
    ∀ j s, s.cached.length = n → firstLen s.cached < bs → 0 < firstLen (src (s.next + j)) →
      (refill src bs (j + 1) s).cached.length = n ∧
      (bs ≤ firstLen (refill src bs (j + 1) s).cached ∨
       firstLen s.cached + 1 ≤ firstLen (refill src bs (j + 1) s).cached) := by
  intro j
  induction j with
  | zero =>
    intro s hs hlt hne
    simp only [refill, hlt, if_true, Nat.add_zero] at hne ⊢
    refine ⟨by simp [hs, (hwf s.next).1], Or.inr ?_⟩
    rw [firstLen_step_ge src n hwf s hs hn]; omega
  | succ j ih =>
    intro s hs hlt hne
    rw [show j + 1 + 1 = (j + 1) + 1 by rfl, refill]
    simp only [hlt, if_true]
    have hs1 : (⟨List.zipWith (· ++ ·) s.cached (src s.next), s.next + 1⟩ : BState).cached.length = n := by
      simp [hs, (hwf s.next).1]
    have hge : firstLen s.cached ≤ firstLen (⟨List.zipWith (· ++ ·) s.cached (src s.next), s.next + 1⟩ : BState).cached := by
      show firstLen s.cached ≤ firstLen (List.zipWith (· ++ ·) s.cached (src s.next))
      rw [firstLen_step_ge src n hwf s hs hn]; omega
    have hnext : (⟨List.zipWith (· ++ ·) s.cached (src s.next), s.next + 1⟩ : BState).next + j = s.next + (j + 1) := by
      show s.next + 1 + j = s.next + (j + 1); omega
    generalize (⟨List.zipWith (· ++ ·) s.cached (src s.next), s.next + 1⟩ : BState) = s1 at hs1 hge hnext ⊢
    by_cases hfull : firstLen s1.cached < bs
    · have := ih s1 hs1 hfull (by rw [hnext]; exact hne)
      refine ⟨this.1, ?_⟩
      rcases this.2 with h | h
      · exact Or.inl h
      · exact Or.inr (by omega)
    · rw [refill_of_full src bs (j + 1) s1 hfull]
      exact ⟨hs1, Or.inl (by omega)⟩

/-- the refill loop fills the cache as soon as every window of `m` consecutive draws contains a non-empty one -/
theorem refill_enough_gaps (src) (n bs m : Nat) (hn : 0 < n) (hwf : WF src n)
    (hgap : ∀ k, ∃ j, j < m ∧ 0 < firstLen (src (k + j))) :
    ∀ d fuel s, s.cached.length = n → bs ≤ firstLen s.cached + d → m * d ≤ fuel →
      bs ≤ firstLen (refill src bs fuel s).cached := by
  intro d
  induction d with
  | zero =>
    intro fuel s hs h _
    have := firstLen_refill_ge src n bs hn hwf fuel s hs
    omega
  | succ d ih =>
    intro fuel s hs h hf
    by_cases hlt : firstLen s.cached < bs
    · obtain ⟨j, hj, hne⟩ := hgap s.next
      have hsplit : fuel = (j + 1) + (fuel - (j + 1)) := by
        have : m * (d + 1) = m * d + m := by rw [Nat.mul_succ]
        omega
      rw [hsplit, refill_add]
      obtain ⟨hlen, hprog⟩ := refill_progress src n bs hn hwf j s hs hlt hne
      rcases hprog with hfull | hgrow
      · have := firstLen_refill_ge src n bs hn hwf (fuel - (j + 1)) _ hlen
        omega
      · apply ih _ _ hlen (by omega)
        have : m * (d + 1) = m * d + m := by rw [Nat.mul_succ]
        omega
    · have := firstLen_refill_ge src n bs hn hwf fuel s hs
      omega

/-- **C14, size clause, with occasional empty draws.**  If among any `m` consecutive underlying draws at least one is
non-empty, every dimension of every batch has exactly `bs` entries (the loop needs at most `m * bs` iterations). -/
theorem batch_size_exact_gaps (src) (n bs m : Nat) (hn : 0 < n) (hwf : WF src n)
    (hgap : ∀ k, ∃ j, j < m ∧ 0 < firstLen (src (k + j)))
    (s : BState) (hs : s.cached.length = n) (hal : Aligned s.cached) :
    ∀ x ∈ (get src bs (m * bs) s).2, x.length = bs := by
  intro x hx
  simp only [Batch.get, List.mem_map] at hx
  obtain ⟨c, hc, rfl⟩ := hx
  have hfull := refill_enough_gaps src n bs m hn hwf hgap bs (m * bs) s hs (by omega) (Nat.le_refl _)
  have hal' := refill_aligned src n bs hwf (m * bs) s hs hal
  rw [List.length_take, hal' c hc]
  omega

/-- non-vacuity: a source whose every other draw is empty satisfies the gap hypothesis with `m = 2`, and the model delivers
full batches from it -/
def gapSrc : Nat → List (List Val) := fun k => if k % 2 = 0 then [[(k : Int), k + 100]] else [[]]
example : ∀ k, ∃ j, j < 2 ∧ 0 < firstLen (gapSrc (k + j)) := by
  intro k
  rcases Nat.mod_two_eq_zero_or_one k with h | h
  · exact ⟨0, by omega, by simp [gapSrc, h, firstLen]⟩
  · exact ⟨1, by omega, by have : (k + 1) % 2 = 0 := by omega
                           simp [gapSrc, this, firstLen]⟩
example : (calls gapSrc 3 6 2 (init gapSrc)).2 = [[[0, 100, 2]], [[102, 4, 104]]] := by decide

end NdeVerif.C14
