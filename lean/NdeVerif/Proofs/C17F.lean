import Mathlib.Analysis.SpecialFunctions.Trigonometric.Deriv
import Mathlib.Analysis.Calculus.Deriv.Add
import Mathlib.Analysis.Calculus.Deriv.Mul
import Mathlib.Algebra.BigOperators.Group.Finset.Basic
import Mathlib.Tactic.Ring
import Mathlib.Tactic.FieldSimp
import Mathlib.Tactic.Linarith
import Mathlib.Tactic.NormNum

namespace NdeVerif.C17F
open Finset Real

/-- the degree of the `k`-th column of `RealFourierSeries`: columns are `1/2, sin φ, cos φ, sin 2φ, cos 2φ, …` -/
def deg (k : ℕ) : ℕ := (k + 1) / 2

/-- the `k`-th column of `RealFourierSeries(max_degree)(φ)` (`_get_real_fourier_term`): constant `1/2` for `k = 0`,
`sin(d φ)` for odd `k = 2d - 1`, `cos(d φ)` for even `k = 2d` -/
noncomputable def term (k : ℕ) (φ : ℝ) : ℝ :=
  if k = 0 then 1 / 2 else if k % 2 = 1 then Real.sin ((deg k : ℝ) * φ) else Real.cos ((deg k : ℝ) * φ)

/-- `laplacian_coefficients = [0] + [-deg² for deg in 1..max_degree for sign in range(2)]` -/
def coeff (k : ℕ) : ℝ := -((deg k : ℝ) ^ 2)

noncomputable def term' (k : ℕ) (φ : ℝ) : ℝ :=
  if k = 0 then 0 else if k % 2 = 1 then (deg k : ℝ) * Real.cos ((deg k : ℝ) * φ) else -((deg k : ℝ) * Real.sin ((deg k : ℝ) * φ))

theorem hasDerivAt_term (k : ℕ) (φ : ℝ) : HasDerivAt (term k) (term' k φ) φ := by
  unfold term term'
  by_cases h0 : k = 0
  · simp only [h0, if_true]; exact hasDerivAt_const φ (1 / 2 : ℝ)
  · simp only [h0, if_false]
    have hl : HasDerivAt (fun x : ℝ => (deg k : ℝ) * x) (deg k : ℝ) φ := by
      simpa using (hasDerivAt_id φ).const_mul (deg k : ℝ)
    by_cases h1 : k % 2 = 1
    · simp only [h1, if_true]
      have := hl.sin
      convert this using 1; ring
    · simp only [h1, if_false]
      have := hl.cos
      convert this using 1; ring

/-- every column is an eigenfunction of `d²/dφ²` with the tabulated coefficient -/
theorem hasDerivAt_termD (k : ℕ) (φ : ℝ) : HasDerivAt (term' k) (coeff k * term k φ) φ := by
  unfold term term' coeff
  by_cases h0 : k = 0
  · simp only [h0, if_true]; simpa [deg] using hasDerivAt_const φ (0 : ℝ)
  · simp only [h0, if_false]
    have hl : HasDerivAt (fun x : ℝ => (deg k : ℝ) * x) (deg k : ℝ) φ := by
      simpa using (hasDerivAt_id φ).const_mul (deg k : ℝ)
    by_cases h1 : k % 2 = 1
    · simp only [h1, if_true]
      have h := (hl.cos).const_mul (deg k : ℝ)
      have hv : (deg k : ℝ) * (-Real.sin ((deg k : ℝ) * φ) * (deg k : ℝ)) = -((deg k : ℝ) ^ 2) * Real.sin ((deg k : ℝ) * φ) := by ring
      rw [hv] at h
      exact h
    · simp only [h1, if_false]
      have h := ((hl.sin).const_mul (deg k : ℝ)).neg
      have hv : -((deg k : ℝ) * (Real.cos ((deg k : ℝ) * φ) * (deg k : ℝ))) = -((deg k : ℝ) ^ 2) * Real.cos ((deg k : ℝ) * φ) := by ring
      rw [hv] at h
      exact h

/-- `FourierLaplacian(max_degree)(R, r, φ)` with `n = 2·max_degree + 1` columns, as the code computes it:
`sum_k ((R_k' / r + R_k'') + coeff_k · R_k / r²) · F_k(φ)` -/
noncomputable def fourierLap (n : ℕ) (R R' R'' : ℕ → ℝ) (r φ : ℝ) : ℝ :=
  ∑ k ∈ range n, ((R' k / r + R'' k) + coeff k * R k / r ^ 2) * term k φ

/-- the expansion `u(r, φ) = sum_k R_k(r) F_k(φ)` -/
noncomputable def expansion (n : ℕ) (R : ℕ → ℝ → ℝ) (r φ : ℝ) : ℝ := ∑ k ∈ range n, R k r * term k φ

/-- `∂u/∂φ` and `∂²u/∂φ²` of the expansion, column by column -/
noncomputable def expansionφ (n : ℕ) (R : ℕ → ℝ → ℝ) (r φ : ℝ) : ℝ := ∑ k ∈ range n, R k r * term' k φ
noncomputable def expansionφφ (n : ℕ) (R : ℕ → ℝ → ℝ) (r φ : ℝ) : ℝ := ∑ k ∈ range n, R k r * (coeff k * term k φ)

/-- the four partial derivatives of the expansion are what their names say (for every number of columns) -/
theorem expansion_derivs (n : ℕ) (R R' R'' : ℕ → ℝ → ℝ)
    (h1 : ∀ k x, HasDerivAt (R k) (R' k x) x) (h2 : ∀ k x, HasDerivAt (R' k) (R'' k x) x) (r φ : ℝ) :
    HasDerivAt (fun x => expansion n R x φ) (expansion n R' r φ) r ∧
    HasDerivAt (fun x => expansion n R' x φ) (expansion n R'' r φ) r ∧
    HasDerivAt (fun y => expansion n R r y) (expansionφ n R r φ) φ ∧
    HasDerivAt (fun y => expansionφ n R r y) (expansionφφ n R r φ) φ := by
  refine ⟨?_, ?_, ?_, ?_⟩
  · exact HasDerivAt.fun_sum (fun k _ => (h1 k r).mul_const (term k φ))
  · exact HasDerivAt.fun_sum (fun k _ => (h2 k r).mul_const (term k φ))
  · exact HasDerivAt.fun_sum (fun k _ => (hasDerivAt_term k φ).const_mul (R k r))
  · exact HasDerivAt.fun_sum (fun k _ => (hasDerivAt_termD k φ).const_mul (R k r))

/-- **C17, Fourier clause, every `max_degree`.**  For any number of columns and any twice differentiable coefficient functions
`R_k`, what `FourierLaplacian` computes equals the polar Laplacian `u_rr + u_r / r + u_φφ / r²` of the expanded field
`u = sum_k R_k(r) F_k(φ)` (the derivatives being the true ones by `expansion_derivs`). -/
theorem fourierLap_eq_polar (n : ℕ) (R R' R'' : ℕ → ℝ → ℝ) (r φ : ℝ) :
    fourierLap n (fun k => R k r) (fun k => R' k r) (fun k => R'' k r) r φ =
      expansion n R'' r φ + expansion n R' r φ / r + expansionφφ n R r φ / r ^ 2 := by
  unfold fourierLap expansion expansionφφ
  rw [div_eq_mul_inv, div_eq_mul_inv, Finset.sum_mul, Finset.sum_mul, ← Finset.sum_add_distrib, ← Finset.sum_add_distrib]
  apply Finset.sum_congr rfl
  intro k _
  ring

/-- the column table for the first columns (what `RealFourierSeries` documents): 1/2, sin φ, cos φ, sin 2φ, cos 2φ -/
example (φ : ℝ) : term 0 φ = 1 / 2 ∧ term 1 φ = Real.sin φ ∧ term 2 φ = Real.cos φ ∧ term 3 φ = Real.sin (2 * φ) ∧ term 4 φ = Real.cos (2 * φ) ∧
    coeff 0 = 0 ∧ coeff 1 = -1 ∧ coeff 2 = -1 ∧ coeff 3 = -4 ∧ coeff 4 = -4 := by
  refine ⟨?_, ?_, ?_, ?_, ?_, ?_, ?_, ?_, ?_, ?_⟩ <;> simp [term, coeff, deg] <;> norm_num

end NdeVerif.C17F
