/-
  C04, gradient clause: "the parameters then move by one optimiser step on the gradient accumulated over those batches
  (one closure step per batch for closure-based optimisers), and a validation epoch [...] without changing any
  parameter".  `gradTrace` replays zero_grad / backward / step over the event log of the model (the log itself is
  tied to the real solver by the correspondence, event by event, and the gradients seen by the scripted optimisers at
  `step()` are compared with `gradTrace`).
-/
import NdeVerif.Proofs.SolverLemmas

namespace NdeVerif.C04
open NdeVerif.Solver

/-- the recorded / back-propagated quantity is the user's loss plus the additional loss, in both phases -/
theorem loss_is_user_plus_additional (c : Cfg) (l : Nat) (θ : Int) (t : Bool) (i : Nat) :
    c.loss l θ t i = c.userLoss l θ t i + c.addl θ t i := rfl

theorem gradTrace_updateBest (c : Cfg) (s : State) (v : Val) :
    gradTrace c (updateBest s v).log = gradTrace c s.log := by
  simp only [updateBest]
  cases h : s.lowest with
  | none => simp [gradTrace, gradStep]
  | some l =>
    by_cases hv : v < l
    · simp [hv, gradTrace, gradStep]
    · simp [hv]

theorem gradTrace_maybeUpdateBestTrain (c : Cfg) (s : State) (v : Val) :
    gradTrace c (maybeUpdateBestTrain s v).log = gradTrace c s.log := by
  unfold maybeUpdateBestTrain
  split
  · exact gradTrace_updateBest c s v
  · rfl

theorem gradTrace_trainBatchPlain (c : Cfg) (p : State × Acc) :
    gradTrace c (trainBatchPlain c p).1.log =
      ((gradTrace c p.1.log).1 + c.gradOf p.1.lossId p.1.θ true p.1.trainDraws, (gradTrace c p.1.log).2) := by
  simp [trainBatchPlain, gradTrace, gradStep]

theorem gradTrace_iterate_plain (c : Cfg) (n : Nat) (s : State) :
    gradTrace c (iterate (trainBatchPlain c) n (s, acc0 c)).1.log =
      ((gradTrace c s.log).1 + sumRange (fun b => c.gradOf s.lossId s.θ true b) s.trainDraws n,
       (gradTrace c s.log).2) := by
  induction n with
  | zero => simp [iterate, sumRange]
  | succ n ih =>
    rw [iterate_succ_right, gradTrace_trainBatchPlain, ih]
    obtain ⟨h1, _, _⟩ := iterate_trainBatchPlain c n s
    obtain ⟨e1, _, e3, _, _, _, _, _, _, _, _, _, _, _, e15, _, _, _⟩ := core_fields _ _ h1
    simp only [core] at e1 e3 e15
    simp only [e1, e3, e15, sumRange]
    congr 1
    omega

/-- plain optimiser: the one step of the epoch sees exactly the SUM over the epoch's batches of the batch gradients
(gradients from earlier epochs were cleared by the single zero_grad before the batches; nothing is rescaled) -/
theorem plain_step_sees_sum_of_batch_gradients (c : Cfg) (s : State) (hn : s.nTrain ≠ 0) (hk : s.optKind = .plain) :
    gradTrace c (trainEpoch c s).log =
      (sumRange (fun b => c.gradOf s.lossId s.θ true b) s.trainDraws s.nTrain,
       (gradTrace c s.log).2 ++ [sumRange (fun b => c.gradOf s.lossId s.θ true b) s.trainDraws s.nTrain]) := by
  unfold trainEpoch
  simp only [hn, if_false, hk]
  have h := gradTrace_iterate_plain c s.nTrain (logZeroGrad s)
  simp only [recordTrainMetrics, plainOptStep, gradTrace, gradStep, gradTrace_maybeUpdateBestTrain, recordTrain]
  rw [h]
  simp [logZeroGrad, gradTrace, gradStep]

theorem gradTrace_closureEvals (c : Cfg) (lossId idx : Nat) :
    ∀ (shifts : List Int) (θ : Int) (l : Val) (ms : List Val) (log : List Event), shifts ≠ [] →
      gradTrace c (closureEvals c lossId idx shifts θ l ms log).2.2.2 =
        (c.gradOf lossId (θ + shifts.dropLast.sum) true idx, (gradTrace c log).2) := by
  intro shifts
  induction shifts with
  | nil => intro θ l ms log h; exact absurd rfl h
  | cons sh rest ih =>
    intro θ l ms log _
    cases rest with
    | nil => simp [closureEvals, gradTrace, gradStep]
    | cons r rs =>
      rw [closureEvals, ih (θ + sh) _ _ _ (by simp)]
      simp only [gradTrace, gradStep, List.dropLast_cons_cons, List.sum_cons]
      congr 2
      omega

/-- closure-based optimiser: the step of a batch sees the gradient of the LAST closure evaluation of that batch alone
(every evaluation starts with zero_grad), taken at the parameters of that evaluation -/
theorem closure_step_sees_last_evaluation_gradient (c : Cfg) (p : State × Acc) (h : c.closureShifts p.1.steps ≠ []) :
    gradTrace c (trainBatchClosure c p).1.log =
      (c.gradOf p.1.lossId (p.1.θ + (c.closureShifts p.1.steps).dropLast.sum) true p.1.trainDraws,
       (gradTrace c p.1.log).2 ++
         [c.gradOf p.1.lossId (p.1.θ + (c.closureShifts p.1.steps).dropLast.sum) true p.1.trainDraws]) := by
  simp only [trainBatchClosure, gradTrace, gradStep]
  rw [gradTrace_closureEvals c _ _ _ _ _ _ _ h]
  simp [gradTrace, gradStep]

theorem gradTrace_validBatch (c : Cfg) (p : State × Acc) :
    gradTrace c (validBatch c p).1.log = gradTrace c p.1.log := by
  simp [validBatch, gradTrace, gradStep]

theorem gradTrace_iterate_valid (c : Cfg) (n : Nat) (p : State × Acc) :
    gradTrace c (iterate (validBatch c) n p).1.log = gradTrace c p.1.log := by
  induction n generalizing p with
  | zero => rfl
  | succ n ih => rw [iterate, ih, gradTrace_validBatch]

/-- a validation epoch neither clears nor adds gradients, and no optimiser step happens in it -/
theorem validEpoch_leaves_gradients (c : Cfg) (s : State) :
    gradTrace c (validEpoch c s).log = gradTrace c s.log := by
  unfold validEpoch
  split
  · rfl
  · simp only [recordValidMetrics, gradTrace_updateBest, recordValid, gradTrace, gradStep]
    exact gradTrace_iterate_valid c s.nValid (s, acc0 c)

/-- non-vacuity / executable check of the definitions on a concrete run: three batches with gradients 5, 7, 11 -/
example :
    let c : Cfg := { userLoss := fun _ _ _ _ => 0, metric := fun _ _ _ _ => 0, nMetrics := 0, plainStep := fun _ => 1,
                     closureShifts := fun _ => [1], gradOf := fun _ _ _ i => [5, 7, 11].getD i 0 }
    (gradTrace c (trainEpoch c (init 0 .plain 3 0 0)).log).2 = [23] := by decide

end NdeVerif.C04
