/-
  C16 — callbacks fire exactly when their predicate holds and do what they say.
  Theorems about `NdeVerif.Callbacks` (the model tied to `neurodiffeq.callbacks` / `BaseSolver.fit` by the
  correspondence check of ./check C16).
-/
import NdeVerif.Model.Callbacks
import Mathlib.Analysis.SpecialFunctions.Log.Base
import Mathlib.Tactic.Linarith
import Mathlib.Tactic.Positivity
import Mathlib.Tactic.NormNum

namespace NdeVerif.C16
open NdeVerif.Callbacks

/-! ### 1. Boolean combinators over the pure (epoch) predicates -/

/-- terms without a stateful `repeated` node: the epoch-based predicates and their combinations -/
def pureCond : Cond → Bool
  | .repeated .. => false
  | .and a b => pureCond a && pureCond b
  | .or a b => pureCond a && pureCond b
  | .xor a b => pureCond a && pureCond b
  | .not a => pureCond a
  | _ => true

/-- Boolean semantics: leaves by their documented predicate (characterised as propositions in §2),
`&`, `|`, `~`, `^` as Boolean and / or / not / xor, evaluated without any short-circuiting or state. -/
def sem (x : Ctx) : Cond → Bool
  | .tt => true
  | .ff => false
  | .onFirstLocal => x.loc == 1
  | .onFirstGlobal => x.glob == 1
  | .onLastLocal => x.loc == x.maxLoc
  | .periodLocal p off => periodHit p off x.loc
  | .periodGlobal p off => periodHit p off x.glob
  | .intervalLocal lo hi => inInterval lo hi x.loc
  | .intervalGlobal lo hi => inInterval lo hi x.glob
  | .repeated .. => false
  | .and a b => sem x a && sem x b
  | .or a b => sem x a || sem x b
  | .not a => !sem x a
  | .xor a b => sem x a != sem x b

/-- **C16, Boolean clause.**  For every expression tree over the epoch predicates (any depth), the code's
evaluation (short-circuit loops in And/Or, the parity sum in Xor) returns the Boolean combination of the
leaves' predicates and leaves the term unchanged (no hidden state). -/
theorem cond_eval_bool (x : Ctx) (c : Cond) (h : pureCond c = true) : c.eval x = (sem x c, c) := by
  induction c with
  | repeated => simp [pureCond] at h
  | and a b iha ihb =>
    simp only [pureCond, Bool.and_eq_true] at h
    simp only [Cond.eval, iha h.1, ihb h.2, sem]
    cases sem x a <;> simp
  | or a b iha ihb =>
    simp only [pureCond, Bool.and_eq_true] at h
    simp only [Cond.eval, iha h.1, ihb h.2, sem]
    cases sem x a <;> simp
  | xor a b iha ihb =>
    simp only [pureCond, Bool.and_eq_true] at h
    simp only [Cond.eval, iha h.1, ihb h.2, sem]
  | not a iha =>
    simp only [pureCond] at h
    simp only [Cond.eval, iha h, sem]
  | _ => simp [Cond.eval, sem]

theorem cond_sem_and (x : Ctx) (a b : Cond) (ha : pureCond a = true) (hb : pureCond b = true) :
    ((Cond.and a b).eval x).1 = true ↔ (a.eval x).1 = true ∧ (b.eval x).1 = true := by
  rw [cond_eval_bool x (.and a b) (by simp [pureCond, ha, hb]), cond_eval_bool x a ha, cond_eval_bool x b hb]
  simp [sem]

theorem cond_sem_or (x : Ctx) (a b : Cond) (ha : pureCond a = true) (hb : pureCond b = true) :
    ((Cond.or a b).eval x).1 = true ↔ (a.eval x).1 = true ∨ (b.eval x).1 = true := by
  rw [cond_eval_bool x (.or a b) (by simp [pureCond, ha, hb]), cond_eval_bool x a ha, cond_eval_bool x b hb]
  simp [sem]

theorem cond_sem_not (x : Ctx) (a : Cond) (ha : pureCond a = true) :
    ((Cond.not a).eval x).1 = true ↔ ¬ (a.eval x).1 = true := by
  rw [cond_eval_bool x (.not a) (by simp [pureCond, ha]), cond_eval_bool x a ha]
  simp [sem]

theorem cond_sem_xor (x : Ctx) (a b : Cond) (ha : pureCond a = true) (hb : pureCond b = true) :
    ((Cond.xor a b).eval x).1 = true ↔ ((a.eval x).1 = true ↔ ¬ (b.eval x).1 = true) := by
  rw [cond_eval_bool x (.xor a b) (by simp [pureCond, ha, hb]), cond_eval_bool x a ha, cond_eval_bool x b hb]
  simp only [sem]
  cases sem x a <;> cases sem x b <;> simp

/-- non-vacuity: a depth-3 term over four different epoch predicates is pure -/
example : pureCond (.xor (.and (.periodLocal 2 0) (.not .onFirstGlobal)) (.or (.intervalGlobal (some 3) none) .onLastLocal)) = true := by
  decide

/-! ### 2. The leaf predicates -/

theorem onFirstLocal_iff (x : Ctx) : (Cond.onFirstLocal.eval x).1 = true ↔ x.loc = 1 := by simp [Cond.eval]
theorem onFirstGlobal_iff (x : Ctx) : (Cond.onFirstGlobal.eval x).1 = true ↔ x.glob = 1 := by simp [Cond.eval]
theorem onLast_iff (x : Ctx) : (Cond.onLastLocal.eval x).1 = true ↔ x.loc = x.maxLoc := by simp [Cond.eval]

/-- `PeriodLocal(p, offset)` (p > 0; Python's `%` is `Int.emod` then) fires iff `local % p = offset % p` -/
theorem periodLocal_iff (x : Ctx) (p : Nat) (off : Int) (_hp : 0 < p) :
    ((Cond.periodLocal p off).eval x).1 = true ↔ (x.loc : Int) % (p : Int) = off % (p : Int) := by
  simp [Cond.eval, periodHit]

theorem periodGlobal_iff (x : Ctx) (p : Nat) (off : Int) (_hp : 0 < p) :
    ((Cond.periodGlobal p off).eval x).1 = true ↔ (x.glob : Int) % (p : Int) = off % (p : Int) := by
  simp [Cond.eval, periodHit]

theorem emod_eq_iff_exists (e off p : Int) : e % p = off % p ↔ ∃ n : Int, e = p * n + off := by
  rw [Int.emod_eq_emod_iff_emod_sub_eq_zero, ← Int.dvd_iff_emod_eq_zero]
  constructor
  · rintro ⟨n, hn⟩; exact ⟨n, by omega⟩
  · rintro ⟨n, hn⟩; exact ⟨n, by omega⟩

/-- the docstring's form: "the local epoch count equals period × n + offset" for some integer `n` -/
theorem periodLocal_iff_exists (x : Ctx) (p : Nat) (off : Int) (hp : 0 < p) :
    ((Cond.periodLocal p off).eval x).1 = true ↔ ∃ n : Int, (x.loc : Int) = (p : Int) * n + off := by
  rw [periodLocal_iff x p off hp, emod_eq_iff_exists]

theorem periodGlobal_iff_exists (x : Ctx) (p : Nat) (off : Int) (hp : 0 < p) :
    ((Cond.periodGlobal p off).eval x).1 = true ↔ ∃ n : Int, (x.glob : Int) = (p : Int) * n + off := by
  rw [periodGlobal_iff x p off hp, emod_eq_iff_exists]

example : ((Cond.periodLocal 3 (-1)).eval ⟨5, 0, 0, [], []⟩).1 = true := by decide   -- 5 = 3·2 + (−1)

theorem inInterval_iff (lo hi : Option Int) (e : Nat) :
    inInterval lo hi e = true ↔ (∀ l, lo = some l → l ≤ (e : Int)) ∧ (∀ h, hi = some h → (e : Int) ≤ h) := by
  cases lo <;> cases hi <;> simp [inInterval]

/-- `ClosedIntervalLocal(min, max)`: `min ≤ local ≤ max`, a missing bound (None → ∓∞) imposing nothing -/
theorem intervalLocal_iff (x : Ctx) (lo hi : Option Int) :
    ((Cond.intervalLocal lo hi).eval x).1 = true ↔
      (∀ l, lo = some l → l ≤ (x.loc : Int)) ∧ (∀ h, hi = some h → (x.loc : Int) ≤ h) := by
  simp only [Cond.eval]; exact inInterval_iff lo hi x.loc

theorem intervalGlobal_iff (x : Ctx) (lo hi : Option Int) :
    ((Cond.intervalGlobal lo hi).eval x).1 = true ↔
      (∀ l, lo = some l → l ≤ (x.glob : Int)) ∧ (∀ h, hi = some h → (x.glob : Int) ≤ h) := by
  simp only [Cond.eval]; exact inInterval_iff lo hi x.glob

/-- `BaseMonitor.to_callback()`: runs on the last local epoch and every `check_every` epochs
(`check_every or 100`) -/
theorem monitor_cb_iff (x : Ctx) (ce : Option Nat) :
    ((monitorCond ce).eval x).1 = true ↔
      x.loc = x.maxLoc ∨ (x.loc : Int) % ((match ce with | none => 100 | some 0 => 100 | some n => n : Nat) : Int) = 0 := by
  have hp : pureCond (monitorCond ce) = true := by simp [monitorCond, pureCond]
  rw [cond_eval_bool x _ hp]
  simp only [monitorCond, sem, periodHit, Bool.or_eq_true, beq_iff_eq, Int.zero_emod]
  constructor
  · rintro (h | h)
    · exact Or.inl h
    · exact Or.inr (of_decide_eq_true h)
  · rintro (h | h)
    · exact Or.inl h
    · exact Or.inr (decide_eq_true h)

/-! ### 3. The repeated-metric family -/

/-- `so_far` after the callback has been evaluated once per epoch on a history (newest first) -/
def soFarAfter (k : Kind) (param : Int) : List Int → Nat
  | last :: prev :: rest => if k.step param last prev then soFarAfter k param (prev :: rest) + 1 else 0
  | _ => 0

/-- the callback evaluated once per epoch, epoch after epoch; `mk h` is the context of the epoch whose
history (newest first) is `h`; with an empty history nothing has been evaluated yet -/
def runEvery (mk : List Int → Ctx) (c : Cond) : List Int → Bool × Cond
  | [] => (false, c)
  | v :: rest => ((runEvery mk c rest).2).eval (mk (v :: rest))

/-- state and result of a fresh repeated-metric callback that has been evaluated on every epoch -/
theorem repeated_state (mk : List Int → Ctx) (k : Kind) (param : Int) (ut : Bool) (rep : Nat)
    (hmk : ∀ h, (if ut then (mk h).train else (mk h).valid) = h) (h : List Int) :
    (runEvery mk (.repeated k param ut rep 0) h).2 = .repeated k param ut rep (soFarAfter k param h) ∧
    (h ≠ [] → (runEvery mk (.repeated k param ut rep 0) h).1 = decide (rep ≤ soFarAfter k param h)) := by
  induction h with
  | nil => simp [runEvery, soFarAfter]
  | cons v rest ih =>
    have key : ((runEvery mk (.repeated k param ut rep 0) rest).2).eval (mk (v :: rest)) =
        (decide (rep ≤ soFarAfter k param (v :: rest)), .repeated k param ut rep (soFarAfter k param (v :: rest))) := by
      have hnext : soFarNext k param (v :: rest) (soFarAfter k param rest) = soFarAfter k param (v :: rest) := by
        cases rest <;> simp [soFarNext, soFarAfter]
      rw [ih.1]
      simp only [Cond.eval, hmk, hnext]
    simp only [runEvery, key]
    simp

/-- the counter reaches `n` iff each of the last `n` steps (pairs of consecutive epochs) exists and satisfies
the step predicate -/
theorem soFarAfter_ge_iff (k : Kind) (param : Int) (h : List Int) (n : Nat) :
    n ≤ soFarAfter k param h ↔
      ∀ i, i < n → ∃ last prev, h[i]? = some last ∧ h[i + 1]? = some prev ∧ k.step param last prev = true := by
  induction h generalizing n with
  | nil =>
    simp only [soFarAfter, Nat.le_zero_eq]
    constructor
    · rintro rfl i hi; omega
    · intro hh; cases n with
      | zero => rfl
      | succ n => obtain ⟨_, _, h1, _⟩ := hh 0 (by omega); simp at h1
  | cons last rest ih =>
    cases rest with
    | nil =>
      simp only [soFarAfter, Nat.le_zero_eq]
      constructor
      · rintro rfl i hi; omega
      · intro hh; cases n with
        | zero => rfl
        | succ n => obtain ⟨_, _, _, h2, _⟩ := hh 0 (by omega); simp at h2
    | cons prev rest' =>
      cases n with
      | zero => simp
      | succ n =>
        rw [Nat.forall_lt_succ_left]
        simp only [soFarAfter, List.getElem?_cons_zero, List.getElem?_cons_succ, Nat.zero_add]
        by_cases hs : k.step param last prev = true
        · simp only [hs, if_true, Nat.add_le_add_iff_right]
          rw [ih n]
          simp [hs]
        · have hs' : k.step param last prev = false := by simpa using hs
          simp only [hs', Bool.false_eq_true, if_false]
          constructor
          · intro h0; omega
          · rintro ⟨⟨l, p, hl, hp, hst⟩, _⟩
            simp only [Option.some.injEq] at hl hp
            subst hl; subst hp
            rw [hs'] at hst; cases hst

/-- **C16, repeated-change clause** (what the code does).  A fresh `RepeatedMetricUp/Down/Converge/Diverge`
(and Below/Above) callback with `repetition = n`, evaluated on every epoch, fires at the epoch whose history is
`h` iff the last `n` steps each exist (`len(history) ≥ n + 1`) and satisfy `_last_satisfied`. -/
theorem repeated_iff (mk : List Int → Ctx) (k : Kind) (param : Int) (ut : Bool) (n : Nat)
    (hmk : ∀ h, (if ut then (mk h).train else (mk h).valid) = h) (h : List Int) (hne : h ≠ []) :
    (runEvery mk (.repeated k param ut n 0) h).1 = true ↔
      ∀ i, i < n → ∃ last prev, h[i]? = some last ∧ h[i + 1]? = some prev ∧ k.step param last prev = true := by
  rw [(repeated_state mk k param ut n hmk h).2 hne, decide_eq_true_iff, soFarAfter_ge_iff]

/-- Below / Above: the step predicate looks at the last value only, so the callback fires iff there are at
least `n + 1` recorded epochs (n > 0) and the latest `n` values are on the right side of the threshold — one
epoch later than the docstring's "for the latest n epochs". -/
theorem repeated_threshold_iff (mk : List Int → Ctx) (below : Bool) (thr : Int) (ut : Bool) (n : Nat)
    (hmk : ∀ h, (if ut then (mk h).train else (mk h).valid) = h) (h : List Int) (hne : h ≠ []) :
    (runEvery mk (.repeated (if below then .below else .above) thr ut n 0) h).1 = true ↔
      (n = 0 ∨ n + 1 ≤ h.length) ∧
      ∀ i v, i < n → h[i]? = some v → (if below then v < thr else thr < v) := by
  rw [repeated_iff mk _ thr ut n hmk h hne]
  constructor
  · intro hh
    refine ⟨?_, ?_⟩
    · cases n with
      | zero => left; rfl
      | succ n =>
        right
        obtain ⟨_, p, _, hp, _⟩ := hh n (by omega)
        have := (List.getElem?_eq_some_iff.mp hp).1
        omega
    · intro i v hi hv
      obtain ⟨l, p, hl, _, hst⟩ := hh i hi
      rw [hv] at hl; cases hl
      cases below <;> simpa [Kind.step] using hst
  · rintro ⟨hlen, hv⟩ i hi
    have hlen' : n + 1 ≤ h.length := by omega
    have h1 : i < h.length := by omega
    have h2 : i + 1 < h.length := by omega
    refine ⟨h[i], h[i + 1], List.getElem?_eq_getElem h1, List.getElem?_eq_getElem h2, ?_⟩
    have := hv i h[i] hi (List.getElem?_eq_getElem h1)
    cases below <;> simpa [Kind.step] using this

def trainCtx (h : List Int) : Ctx := ⟨h.length, h.length, 0, h, []⟩

/-- non-vacuity of `repeated_iff`: three strictly decreasing steps, `RepeatedMetricDown(repetition=3)` fires -/
example : (runEvery trainCtx (.repeated .down 1 true 3 0) [2, 4, 6, 9]).1 = true := by decide
example : ∀ h, (if true then (trainCtx h).train else (trainCtx h).valid) = h := by intro h; rfl

/-- **Docstring deviation at the first epoch(s)** (reported; outside the property's quantifier, which names the
repeated-change predicates): `RepeatedMetricBelow(threshold=5, repetition=1)` with a first-epoch loss of 1 —
"less than 5 for the latest 1 epoch" holds, the code does not fire (its `len(history) >= 2` guard). -/
theorem repeated_below_first_epoch_witness :
    (runEvery trainCtx (.repeated .below 5 true 1 0) [1]).1 = false ∧
    (runEvery trainCtx (.repeated .below 5 true 1 0) [1, 1]).1 = true := by decide

/-! ### 4. Inside the fit loop: an action runs iff its condition holds -/

def cbFires (x : Ctx) : Callback → Bool
  | .bare _ => true
  | .cond c a => (c.eval x).1 && a.isSome

/-- indices (counted from `j`) of the callbacks whose action runs in an epoch with context `x` -/
def firedIdx (x : Ctx) : Nat → List Callback → List Nat
  | _, [] => []
  | j, cb :: rest => if cbFires x cb then j :: firedIdx x (j + 1) rest else firedIdx x (j + 1) rest

def ev (s : Solver) (j : Nat) : Event := ⟨j, s.fitIdx, s.loc, s.train.length⟩

theorem action_run_frame (idx : Nat) (s : Solver) (a : Action) :
    (a.run idx s).1.ctx = s.ctx ∧ (a.run idx s).1.fitIdx = s.fitIdx ∧ (a.run idx s).1.log = ev s idx :: s.log := by
  cases a with
  | spy => simp [Action.run, Solver.logged, Solver.ctx, ev]
  | stop => simp [Action.run, Solver.logged, Solver.ctx, ev]
  | setLossFn id reset called =>
    simp only [Action.run]; split <;> simp [Solver.logged, Solver.ctx, ev]
  | setOptimizer src reset called =>
    simp only [Action.run]; split
    · cases src <;> simp [Solver.logged, Solver.ctx, ev]
    · simp [Solver.logged, Solver.ctx, ev]
  | eve c =>
    simp only [Action.run]
    split
    · split <;> simp [Solver.logged, Solver.ctx, ev]
    · simp [Solver.logged, Solver.ctx, ev]

theorem callback_run_frame (j : Nat) (s : Solver) (cb : Callback) :
    (cb.run j s).1.ctx = s.ctx ∧ (cb.run j s).1.fitIdx = s.fitIdx ∧
    (cb.run j s).1.log = if cbFires s.ctx cb then ev s j :: s.log else s.log := by
  cases cb with
  | bare a => simpa [Callback.run, cbFires] using action_run_frame j s a
  | cond c a =>
    simp only [Callback.run, cbFires]
    by_cases hc : (c.eval s.ctx).1 = true
    · cases a with
      | none => simp [hc]
      | some act => simpa [hc] using action_run_frame j s act
    · simp [hc]

theorem ev_congr (s s' : Solver) (h : s'.ctx = s.ctx) (hf : s'.fitIdx = s.fitIdx) (j : Nat) : ev s' j = ev s j := by
  have h1 : s'.loc = s.loc := congrArg Ctx.loc h
  have h2 : s'.train = s.train := congrArg Ctx.train h
  simp [ev, h1, h2, hf]

/-- callbacks never change what condition callbacks look at (local/global/max epoch, histories) -/
theorem callbacks_preserve_ctx (cbs : List Callback) : ∀ (j : Nat) (s : Solver),
    (runCallbacks j s cbs).1.ctx = s.ctx ∧ (runCallbacks j s cbs).1.fitIdx = s.fitIdx := by
  induction cbs with
  | nil => intro j s; simp [runCallbacks]
  | cons cb rest ih =>
    intro j s
    have h1 := callback_run_frame j s cb
    have h2 := ih (j + 1) (cb.run j s).1
    simp only [runCallbacks]
    exact ⟨h2.1.trans h1.1, h2.2.trans h1.2.1⟩

/-- the action runs recorded in one epoch are exactly the callbacks whose condition holds, in list order -/
theorem callbacks_log (cbs : List Callback) : ∀ (j : Nat) (s : Solver),
    (runCallbacks j s cbs).1.log = ((firedIdx s.ctx j cbs).map (ev s)).reverse ++ s.log := by
  induction cbs with
  | nil => intro j s; simp [runCallbacks, firedIdx]
  | cons cb rest ih =>
    intro j s
    have h1 := callback_run_frame j s cb
    have h2 := ih (j + 1) (cb.run j s).1
    simp only [runCallbacks, firedIdx]
    rw [h2, h1.1, h1.2.2]
    have hev : ev (cb.run j s).1 = ev s := funext (ev_congr s _ h1.1 h1.2.1)
    rw [hev]
    by_cases hf : cbFires s.ctx cb = true <;> simp [hf]

theorem mem_firedIdx (x : Ctx) (cbs : List Callback) : ∀ (j0 i : Nat),
    j0 + i ∈ firedIdx x j0 cbs ↔ ∃ cb, cbs[i]? = some cb ∧ cbFires x cb = true := by
  induction cbs with
  | nil => intro j0 i; simp [firedIdx]
  | cons cb rest ih =>
    intro j0 i
    have hge : ∀ (l : List Callback) (j m : Nat), m ∈ firedIdx x j l → j ≤ m := by
      intro l; induction l with
      | nil => intro j m h; simp [firedIdx] at h
      | cons c l ihl =>
        intro j m h
        simp only [firedIdx] at h
        split at h
        · rcases List.mem_cons.mp h with rfl | h
          · exact Nat.le_refl _
          · exact Nat.le_of_succ_le (ihl _ _ h)
        · exact Nat.le_of_succ_le (ihl _ _ h)
    cases i with
    | zero =>
      have hex : (∃ cb', (cb :: rest)[0]? = some cb' ∧ cbFires x cb' = true) ↔ cbFires x cb = true := by simp
      rw [hex, Nat.add_zero]
      simp only [firedIdx]
      by_cases hf : cbFires x cb = true
      · simp [hf]
      · have hf' : cbFires x cb = false := by simpa using hf
        simp only [hf', Bool.false_eq_true, if_false, iff_false]
        intro h; have := hge _ _ _ h; omega
    | succ i =>
      have := ih (j0 + 1) i
      have e : j0 + 1 + i = j0 + (i + 1) := by omega
      rw [e] at this
      simp only [firedIdx, List.getElem?_cons_succ]
      by_cases hf : cbFires x cb = true
      · simp only [hf, if_true, List.mem_cons]
        rw [this]
        constructor
        · rintro (h | h)
          · omega
          · exact h
        · exact Or.inr
      · have hf' : cbFires x cb = false := by simpa using hf
        simp only [hf', Bool.false_eq_true, if_false]
        exact this

/-- **C16, firing clause.**  In an epoch of `fit`, the action attached to the condition callback at position `i`
of the callbacks list runs (is recorded in that epoch's log, see `callbacks_log`) iff the condition evaluates to
true on the solver's (local epoch, global epoch, max epochs, histories) — whatever the other callbacks do. -/
theorem action_runs_iff_condition (s : Solver) (cbs : List Callback) (i : Nat) (c : Cond) (a : Action)
    (h : cbs[i]? = some (.cond c (some a))) :
    i ∈ firedIdx s.ctx 0 cbs ↔ (c.eval s.ctx).1 = true := by
  have := mem_firedIdx s.ctx cbs 0 i
  rw [Nat.zero_add] at this
  rw [this, h]
  simp [cbFires]

example : firedIdx ⟨2, 2, 4, [], []⟩ 0 [.cond (.periodLocal 2 0) (some .spy), .cond .onFirstLocal (some .stop), .bare .spy] = [0, 2] := by
  decide

/-- the context the callbacks of local epoch `i + 1` see: `local_epoch = i + 1`, `_max_local_epoch` as set by
`fit`, `global_epoch = len(train_loss)` after this epoch's training (one more than before, unless
`n_batches['train'] = 0`) -/
theorem epoch_ctx (src : Src) (i : Nat) (s : Solver) :
    let s1 := validEpoch src (trainEpoch src { s with loc := i + 1 })
    s1.ctx.loc = i + 1 ∧ s1.ctx.maxLoc = s.maxLoc ∧ s1.fitIdx = s.fitIdx ∧ s1.stop = s.stop ∧
    s1.ctx.glob = s.train.length + (if s.nTrain = 0 then 0 else 1) := by
  simp only [validEpoch, trainEpoch, Solver.ctx]
  by_cases h1 : s.nTrain = 0 <;> by_cases h2 : s.nValid = 0 <;> simp [h1, h2]

/-! ### 5. Stop -/

def isStopAction : Action → Bool
  | .stop => true
  | _ => false

def cbIsStop : Callback → Bool
  | .bare a => isStopAction a
  | .cond _ (some a) => isStopAction a
  | _ => false

theorem action_run_stop (idx : Nat) (s : Solver) (a : Action) :
    (a.run idx s).1.stop = (s.stop || isStopAction a) := by
  cases a with
  | spy => simp [Action.run, Solver.logged, isStopAction]
  | stop => simp [Action.run, Solver.logged, isStopAction]
  | setLossFn id reset called =>
    simp only [Action.run]; split <;> simp [Solver.logged, isStopAction]
  | setOptimizer src reset called =>
    simp only [Action.run]; split
    · cases src <;> simp [Solver.logged, isStopAction]
    · simp [Solver.logged, isStopAction]
  | eve c =>
    simp only [Action.run]
    split
    · split <;> simp [Solver.logged, isStopAction]
    · simp [Solver.logged, isStopAction]

/-- after the callbacks of an epoch, `_stop_training` is set iff it was set before or a stop action ran -/
theorem stop_flag_iff (cbs : List Callback) : ∀ (j : Nat) (s : Solver),
    (runCallbacks j s cbs).1.stop = (s.stop || cbs.any (fun cb => cbFires s.ctx cb && cbIsStop cb)) := by
  induction cbs with
  | nil => intro j s; simp [runCallbacks]
  | cons cb rest ih =>
    intro j s
    have hctx := (callback_run_frame j s cb).1
    simp only [runCallbacks, List.any_cons]
    rw [ih (j + 1) (cb.run j s).1, hctx]
    have h1 : (cb.run j s).1.stop = (s.stop || (cbFires s.ctx cb && cbIsStop cb)) := by
      cases cb with
      | bare a =>
        simp only [Callback.run, cbFires, cbIsStop, Bool.true_and]
        exact action_run_stop j s a
      | cond c a =>
        simp only [Callback.run, cbFires]
        by_cases hc : (c.eval s.ctx).1 = true
        · cases a with
          | none => simp [hc, cbIsStop]
          | some act =>
            simp only [hc, if_true, cbIsStop, Option.isSome_some, Bool.and_self, Bool.true_and]
            exact action_run_stop j s act
        · simp [hc]
    rw [h1, Bool.or_assoc]

theorem loop_stop_nil (src : Src) (i n : Nat) (s : Solver) (cbs : List Callback) (h : s.stop = true) :
    (loop src i n s cbs).2.2 = [] := by
  cases n <;> simp [loop, h]

theorem loop_succ (src : Src) (i n : Nat) (s : Solver) (cbs : List Callback) (h : ¬ s.stop = true) :
    (loop src i (n + 1) s cbs).2.2 =
      epochStep src i s cbs :: (loop src (i + 1) n (epochStep src i s cbs).1 (epochStep src i s cbs).2).2.2 := by
  simp [loop, h]

/-- what one loop iteration preserves / sets: local epoch `i + 1`, `_max_local_epoch` and fit index untouched -/
theorem epochStep_frame (src : Src) (i : Nat) (s : Solver) (cbs : List Callback) :
    (epochStep src i s cbs).1.loc = i + 1 ∧ (epochStep src i s cbs).1.maxLoc = s.maxLoc ∧
    (epochStep src i s cbs).1.fitIdx = s.fitIdx := by
  have hc := callbacks_preserve_ctx cbs 0 (validEpoch src (trainEpoch src { s with loc := i + 1 }))
  have he := epoch_ctx src i s
  simp only at he
  refine ⟨?_, ?_, hc.2.trans he.2.2.1⟩
  · have := congrArg Ctx.loc hc.1; simpa [Solver.ctx, epochStep] using this.trans he.1
  · have := congrArg Ctx.maxLoc hc.1; simpa [Solver.ctx, epochStep] using this.trans he.2.1

/-- **C16, stop clause.**  Within one `fit` call, a snapshot (end of an epoch) in which `_stop_training` is set
is the last one: no epoch runs after the epoch in which a stop action fired. -/
theorem stop_semantics (src : Src) (n : Nat) : ∀ (i : Nat) (s : Solver) (cbs : List Callback) (j : Nat),
    j + 1 < (loop src i n s cbs).2.2.length →
      ∀ sn, (loop src i n s cbs).2.2[j]? = some sn → sn.1.stop = false := by
  induction n with
  | zero => intro i s cbs j h; simp [loop] at h
  | succ n ih =>
    intro i s cbs j h sn hsn
    by_cases hs : s.stop = true
    · rw [loop_stop_nil src i (n + 1) s cbs hs] at h; simp at h
    · rw [loop_succ src i n s cbs hs] at h hsn
      generalize epochStep src i s cbs = r at h hsn
      cases j with
      | zero =>
        simp only [List.getElem?_cons_zero, Option.some.injEq] at hsn
        subst hsn
        cases hst : r.1.stop
        · rfl
        · rw [loop_stop_nil src (i + 1) n _ _ hst] at h; simp at h
      | succ j =>
        simp only [List.getElem?_cons_succ] at hsn
        simp only [List.length_cons] at h
        exact ih _ _ _ j (by omega) sn hsn

/-- a `fit` call that ran fewer epochs than requested ended because `_stop_training` was set at the end of its
last epoch (or, for the bare loop, before its first) -/
theorem early_exit_only_by_stop (src : Src) (n : Nat) : ∀ (i : Nat) (s : Solver) (cbs : List Callback),
    (loop src i n s cbs).2.2.length < n →
      s.stop = true ∨ ∃ sn, (loop src i n s cbs).2.2.getLast? = some sn ∧ sn.1.stop = true := by
  induction n with
  | zero => intro i s cbs h; simp at h
  | succ n ih =>
    intro i s cbs h
    by_cases hs : s.stop = true
    · exact Or.inl hs
    · right
      rw [loop_succ src i n s cbs hs] at h ⊢
      generalize epochStep src i s cbs = r at h ⊢
      simp only [List.length_cons] at h
      rcases ih (i + 1) r.1 r.2 (by omega) with h' | ⟨sn, h1, h2⟩
      · rw [loop_stop_nil src (i + 1) n _ _ h']
        exact ⟨r, by simp, h'⟩
      · refine ⟨sn, ?_, h2⟩
        rw [List.getLast?_cons, h1]; rfl

/-- `fit` clears a stale stop flag: a later `fit(max_epochs > 0)` runs at least its first epoch -/
theorem fit_after_stop_runs (src : Src) (m : Nat) (s : Solver) (cbs : List Callback) (hm : 0 < m) :
    (fit src m s cbs).2.2 ≠ [] := by
  cases m with
  | zero => omega
  | succ m => simp [fit, loop]

/-- the epochs that run in one call are numbered `i+1, i+2, …` and all see the same `_max_local_epoch`
and fit index -/
theorem loop_locs (src : Src) (n : Nat) : ∀ (i : Nat) (s : Solver) (cbs : List Callback),
    (loop src i n s cbs).2.2.map (fun sn => sn.1.loc) = List.range' (i + 1) (loop src i n s cbs).2.2.length ∧
    ∀ sn ∈ (loop src i n s cbs).2.2, sn.1.maxLoc = s.maxLoc ∧ sn.1.fitIdx = s.fitIdx := by
  induction n with
  | zero => intro i s cbs; simp [loop]
  | succ n ih =>
    intro i s cbs
    by_cases hs : s.stop = true
    · rw [loop_stop_nil src i (n + 1) s cbs hs]; simp
    · rw [loop_succ src i n s cbs hs]
      have hf := epochStep_frame src i s cbs
      have := ih (i + 1) (epochStep src i s cbs).1 (epochStep src i s cbs).2
      generalize epochStep src i s cbs = r at hf this
      simp only [List.map_cons, List.length_cons, List.mem_cons]
      refine ⟨?_, ?_⟩
      · rw [this.1, hf.1, List.range'_succ]
      · rintro sn (rfl | hsn)
        · exact ⟨hf.2.1, hf.2.2⟩
        · have := this.2 sn hsn
          exact ⟨this.1.trans hf.2.1, this.2.trans hf.2.2⟩

/-- in a `fit(max_epochs)` call every epoch's callbacks see `_max_local_epoch = max_epochs`, local epochs
`1, 2, …`, and a fresh fit index -/
theorem fit_epochs (src : Src) (m : Nat) (s : Solver) (cbs : List Callback) :
    (fit src m s cbs).2.2.map (fun sn => sn.1.loc) = List.range' 1 (fit src m s cbs).2.2.length ∧
    (fit src m s cbs).2.2.length ≤ m ∧
    ∀ sn ∈ (fit src m s cbs).2.2, sn.1.maxLoc = m ∧ sn.1.fitIdx = s.fitIdx + 1 := by
  have h := loop_locs src m 0 { s with stop := false, maxLoc := m, fitIdx := s.fitIdx + 1 } cbs
  refine ⟨h.1, ?_, h.2⟩
  have hlen : ∀ (n i : Nat) (s : Solver) (cbs : List Callback), (loop src i n s cbs).2.2.length ≤ n := by
    intro n
    induction n with
    | zero => intro i s cbs; simp [loop]
    | succ n ih =>
      intro i s cbs
      by_cases hs : s.stop = true
      · rw [loop_stop_nil src i (n + 1) s cbs hs]; simp
      · rw [loop_succ src i n s cbs hs]
        have := ih (i + 1) (epochStep src i s cbs).1 (epochStep src i s cbs).2
        simp only [List.length_cons]; omega
  exact hlen _ _ _ _

/-- non-vacuity: a stop conditioned on `PeriodGlobal(3)` ends a 5-epoch call after its 3rd epoch; the next call
runs again -/
example :
    let src : Src := ⟨fun _ => 0, fun _ => 0⟩
    let r := fit src 5 {} [.cond (.periodGlobal 3 0) (some .stop)]
    r.2.2.length = 3 ∧ r.1.stop = true ∧ (fit src 2 r.1 r.2.1).2.2.length = 2 := by decide

/-- the log after one loop iteration: the previous log plus one event per callback whose condition held in the
context of that epoch (training and validation themselves record nothing) -/
theorem epochStep_log (src : Src) (i : Nat) (s : Solver) (cbs : List Callback) :
    let s1 := validEpoch src (trainEpoch src { s with loc := i + 1 })
    (epochStep src i s cbs).1.log = ((firedIdx s1.ctx 0 cbs).map (ev s1)).reverse ++ s.log := by
  have hlog : (validEpoch src (trainEpoch src { s with loc := i + 1 })).log = s.log := by
    simp only [validEpoch, trainEpoch]
    by_cases h1 : s.nTrain = 0 <;> by_cases h2 : s.nValid = 0 <;> simp [h1, h2]
  simp only [epochStep]
  rw [callbacks_log, hlog]

/-- a pure condition callback is the same object after any epoch (only its action may change state) -/
theorem pure_callback_persists (cbs : List Callback) : ∀ (j0 : Nat) (s : Solver) (i : Nat) (c : Cond) (a : Action),
    cbs[i]? = some (.cond c (some a)) → pureCond c = true →
      ∃ a', (runCallbacks j0 s cbs).2[i]? = some (.cond c (some a')) := by
  induction cbs with
  | nil => intro j0 s i c a h; simp at h
  | cons cb rest ih =>
    intro j0 s i c a h hp
    cases i with
    | zero =>
      simp only [List.getElem?_cons_zero, Option.some.injEq] at h
      subst h
      simp only [runCallbacks, List.getElem?_cons_zero, Callback.run, cond_eval_bool s.ctx c hp]
      by_cases hs : sem s.ctx c = true
      · exact ⟨(a.run j0 s).2, by simp [hs]⟩
      · exact ⟨a, by simp [hs]⟩
    | succ i =>
      simp only [List.getElem?_cons_succ] at h
      simp only [runCallbacks, List.getElem?_cons_succ]
      exact ih _ _ i c a h hp

/-- … hence through a whole `fit` loop: at the end of every epoch the callback at position `i` still carries
the same pure condition `c`, so `action_runs_iff_condition` + `cond_eval_bool` apply to every epoch of the call
with the same `c`: the action runs in exactly the epochs whose context satisfies `sem · c`. -/
theorem loop_pure_persist (src : Src) (n : Nat) : ∀ (i0 : Nat) (s : Solver) (cbs : List Callback) (i : Nat) (c : Cond) (a : Action),
    cbs[i]? = some (.cond c (some a)) → pureCond c = true →
      (∀ sn ∈ (loop src i0 n s cbs).2.2, ∃ a', sn.2[i]? = some (.cond c (some a'))) ∧
      ∃ a', (loop src i0 n s cbs).2.1[i]? = some (.cond c (some a')) := by
  induction n with
  | zero => intro i0 s cbs i c a h hp; simp [loop]; exact ⟨a, h⟩
  | succ n ih =>
    intro i0 s cbs i c a h hp
    by_cases hs : s.stop = true
    · simp [loop, hs]; exact ⟨a, h⟩
    · obtain ⟨a1, h1⟩ := pure_callback_persists cbs 0 (validEpoch src (trainEpoch src { s with loc := i0 + 1 })) i c a h hp
      have h1' : (epochStep src i0 s cbs).2[i]? = some (.cond c (some a1)) := h1
      have := ih (i0 + 1) (epochStep src i0 s cbs).1 (epochStep src i0 s cbs).2 i c a1 h1' hp
      rw [loop_succ src i0 n s cbs hs]
      refine ⟨?_, ?_⟩
      · intro sn hsn
        rcases List.mem_cons.mp hsn with rfl | hsn
        · exact ⟨a1, h1'⟩
        · exact this.1 sn hsn
      · have e : (loop src i0 (n + 1) s cbs).2.1 =
            (loop src (i0 + 1) n (epochStep src i0 s cbs).1 (epochStep src i0 s cbs).2).2.1 := by
          simp [loop, hs]
        rw [e]; exact this.2

/-- the firing clause for pure conditions, per epoch of the loop, in terms of the Boolean semantics -/
theorem pure_action_runs_iff_sem (s : Solver) (cbs : List Callback) (i : Nat) (c : Cond) (a : Action)
    (h : cbs[i]? = some (.cond c (some a))) (hp : pureCond c = true) :
    i ∈ firedIdx s.ctx 0 cbs ↔ sem s.ctx c = true := by
  rw [action_runs_iff_condition s cbs i c a h, cond_eval_bool s.ctx c hp]

/-! ### 6. Set-once actions -/

/-- number of `_set_loss_fn` calls made when the action is called on each of the given solver states in turn
(arbitrary other code may run in between) -/
def lossSetCount (idx : Nat) : Action → List Solver → Nat
  | _, [] => 0
  | a, s :: ss => ((a.run idx s).1.lossSets - s.lossSets) + lossSetCount idx (a.run idx s).2 ss

def optSetCount (idx : Nat) : Action → List Solver → Nat
  | _, [] => 0
  | a, s :: ss => ((a.run idx s).1.optSets - s.optSets) + optSetCount idx (a.run idx s).2 ss

theorem lossSetCount_called (idx id : Nat) (ss : List Solver) : lossSetCount idx (.setLossFn id false true) ss = 0 := by
  induction ss with
  | nil => rfl
  | cons s ss ih => simp [lossSetCount, Action.run, Solver.logged, ih]

/-- `SetLossFn(reset=False)`: however often it is called, the loss function is set exactly once (at the first call) -/
theorem set_once (idx id : Nat) (ss : List Solver) :
    lossSetCount idx (.setLossFn id false false) ss = min ss.length 1 := by
  cases ss with
  | nil => rfl
  | cons s ss =>
    simp only [lossSetCount, Action.run, Bool.false_or, Bool.not_false, if_true, lossSetCount_called, List.length_cons]
    simp

/-- `SetLossFn(reset=True)`: set at every call -/
theorem set_reset (idx id : Nat) (called : Bool) (ss : List Solver) :
    lossSetCount idx (.setLossFn id true called) ss = ss.length := by
  induction ss generalizing called with
  | nil => rfl
  | cons s ss ih =>
    simp only [lossSetCount, Action.run, Bool.true_or, if_true, ih, List.length_cons]
    simp; omega

/-- an effective call installs exactly the given loss function; an ineffective one changes nothing but the log -/
theorem set_effect (idx id : Nat) (reset called : Bool) (s : Solver) :
    ((reset || !called) = true → ((Action.setLossFn id reset called).run idx s).1.lossFn = id) ∧
    ((reset || !called) = false → ((Action.setLossFn id reset called).run idx s).1 = s.logged idx) := by
  constructor <;> intro h <;> simp [Action.run, h, Solver.logged]

theorem optSetCount_called (idx : Nat) (src : OptSrc) (ss : List Solver) :
    optSetCount idx (.setOptimizer src false true) ss = 0 := by
  induction ss with
  | nil => rfl
  | cons s ss ih => simp [optSetCount, Action.run, Solver.logged, ih]

theorem setOptimizer_once (idx : Nat) (src : OptSrc) (ss : List Solver) :
    optSetCount idx (.setOptimizer src false false) ss = min ss.length 1 := by
  cases ss with
  | nil => rfl
  | cons s ss =>
    cases src <;> simp [optSetCount, Action.run, optSetCount_called, Solver.logged]

theorem setOptimizer_reset (idx : Nat) (src : OptSrc) (called : Bool) (ss : List Solver) :
    optSetCount idx (.setOptimizer src true called) ss = ss.length := by
  induction ss generalizing called with
  | nil => rfl
  | cons s ss ih =>
    cases src <;> simp [optSetCount, Action.run, ih, Solver.logged] <;> omega

theorem mem_dedup (l : List Nat) (x : Nat) : x ∈ dedup l ↔ x ∈ l := by
  induction l with
  | nil => simp [dedup]
  | cons y ys ih =>
    simp only [dedup, List.mem_cons, List.mem_filter, ih]
    by_cases h : x = y <;> simp [h]

theorem nodup_dedup (l : List Nat) : (dedup l).Nodup := by
  induction l with
  | nil => simp [dedup]
  | cons y ys ih =>
    simp only [dedup, List.nodup_cons, List.mem_filter]
    exact ⟨by simp, ih.filter _⟩

/-- **C16, distinct-parameters clause.**  After `SetOptimizer(<optimizer class>)` takes effect, the optimizer
registers every parameter of every network of the solver exactly once — also when unknowns share a network. -/
theorem setOptimizer_distinct_params (idx : Nat) (reset called : Bool) (s : Solver) (h : (reset || !called) = true) :
    let s' := ((Action.setOptimizer .cls reset called).run idx s).1
    s'.optParams.Nodup ∧ ∀ p, p ∈ s'.optParams ↔ ∃ n ∈ s.nets, p ∈ netParams s.perNet n := by
  simp only [Action.run, h, if_true, Solver.logged, Solver.distinctParams]
  exact ⟨nodup_dedup _, fun p => by rw [mem_dedup]; simp [List.mem_flatMap]⟩

/-- non-vacuity: two unknowns sharing one 4-parameter network — 4 registered parameters, not 8 -/
example : (((Action.setOptimizer .cls false false).run 0 { nets := [0, 0] }).1).optParams = [0, 1, 2, 3] := by decide

/-! ### 7. The batch-count rule (Eve) -/

/-- Python's `int(r)`: truncation towards zero -/
noncomputable def trunc (r : ℝ) : ℤ := if 0 ≤ r then ⌊r⌋ else ⌈r⌉

/-- `EveCallback.EPS = 1e-4` -/
noncomputable def EPS : ℝ := 1 / 10000

/-- `int(EPS + (np.log(value) - np.log(base_value)) / np.log(double_at))`, over the reals -/
noncomputable def codeDt (v v0 p : ℝ) : ℤ := trunc (EPS + (Real.log v - Real.log v0) / Real.log p)

/-- truncation and floor differ on negative numbers only, and `max(·, 0)` hides the difference -/
theorem trunc_eq_floor_under_max (r : ℝ) : max (trunc r) 0 = max ⌊r⌋ 0 := by
  unfold trunc
  split
  · rfl
  · rename_i h
    have hr : r ≤ 0 := le_of_lt (not_le.mp h)
    have h1 : ⌈r⌉ ≤ 0 := Int.ceil_le.mpr (by simpa using hr)
    have h2 : ⌊r⌋ ≤ 0 := Int.floor_nonpos hr
    rw [max_eq_right h1, max_eq_right h2]

/-- for a base `0 < p < 1`: `⌊log_p x⌋ ≥ k ↔ x ≤ p^k` (what lets the model avoid logarithms) -/
theorem floor_logb_ge_iff (p x : ℝ) (hp0 : 0 < p) (hp1 : p < 1) (hx : 0 < x) (k : ℕ) :
    (k : ℤ) ≤ ⌊Real.logb p x⌋ ↔ x ≤ p ^ k := by
  rw [Int.le_floor, Int.cast_natCast, Real.le_logb_iff_rpow_le_of_base_lt_one hp0 hp1 hx, Real.rpow_natCast]

theorem eveK_inv (pn pd xn xd : Nat) : ∀ (fuel k : Nat),
    k ≤ eveK pn pd xn xd fuel k ∧ eveK pn pd xn xd fuel k ≤ k + fuel ∧
    (∀ j, k < j → j ≤ eveK pn pd xn xd fuel k → xn * pd ^ j ≤ pn ^ j * xd) ∧
    (eveK pn pd xn xd fuel k < k + fuel →
      ¬ xn * pd ^ (eveK pn pd xn xd fuel k + 1) ≤ pn ^ (eveK pn pd xn xd fuel k + 1) * xd) := by
  intro fuel
  induction fuel with
  | zero => intro k; simp [eveK]; intro j h1 h2; omega
  | succ fuel ih =>
    intro k
    simp only [eveK]
    split
    · rename_i hle
      obtain ⟨h1, h2, h3, h4⟩ := ih (k + 1)
      refine ⟨by omega, by omega, ?_, fun h => h4 (by omega)⟩
      intro j hj1 hj2
      by_cases hj : j = k + 1
      · subst hj; exact hle
      · exact h3 j (by omega) hj2
    · rename_i hle
      exact ⟨le_refl _, by omega, fun j h1 h2 => by omega, fun _ => hle⟩

theorem nat_le_iff_real (pn pd xn xd j : Nat) (hpd : 0 < pd) (hxd : 0 < xd) :
    xn * pd ^ j ≤ pn ^ j * xd ↔ (xn : ℝ) / xd ≤ ((pn : ℝ) / pd) ^ j := by
  have h1 : (0 : ℝ) < xd := by exact_mod_cast hxd
  have h2 : (0 : ℝ) < (pd : ℝ) ^ j := by positivity
  rw [div_pow, div_le_div_iff₀ h1 h2]
  exact_mod_cast Iff.rfl

/-- the model's logarithm-free search computes `max(0, ⌊log_p x⌋)` (when it stops before running out of fuel) -/
theorem eveK_spec (pn pd xn xd fuel : Nat) (hpn : 0 < pn) (hp : pn < pd) (hxn : 0 < xn) (hxd : 0 < xd)
    (hfuel : eveK pn pd xn xd fuel 0 < fuel) :
    (eveK pn pd xn xd fuel 0 : ℤ) = max ⌊Real.logb ((pn : ℝ) / pd) ((xn : ℝ) / xd)⌋ 0 := by
  have hpd : 0 < pd := by omega
  have hp0 : (0 : ℝ) < (pn : ℝ) / pd := by positivity
  have hp1 : (pn : ℝ) / pd < 1 := by
    rw [div_lt_one (by exact_mod_cast hpd)]; exact_mod_cast hp
  have hx : (0 : ℝ) < (xn : ℝ) / xd := by positivity
  obtain ⟨_, _, h3, h4⟩ := eveK_inv pn pd xn xd fuel 0
  generalize eveK pn pd xn xd fuel 0 = K at *
  have hup : ¬ ((K + 1 : ℕ) : ℤ) ≤ ⌊Real.logb ((pn : ℝ) / pd) ((xn : ℝ) / xd)⌋ := by
    rw [floor_logb_ge_iff _ _ hp0 hp1 hx, ← nat_le_iff_real _ _ _ _ _ hpd hxd]
    exact h4 (by omega)
  push_cast at hup
  by_cases hK : K = 0
  · subst hK
    simp only [Nat.cast_zero] at hup ⊢
    rw [max_eq_right (by omega)]
  · have hlo : (K : ℤ) ≤ ⌊Real.logb ((pn : ℝ) / pd) ((xn : ℝ) / xd)⌋ := by
      rw [floor_logb_ge_iff _ _ hp0 hp1 hx, ← nat_le_iff_real _ _ _ _ _ hpd hxd]
      exact h3 K (by omega) (le_refl _)
    have : ⌊Real.logb ((pn : ℝ) / pd) ((xn : ℝ) / xd)⌋ = K := by omega
    rw [this, max_eq_left (by omega)]

/-- bases above 1 (`double_at > 1`): the swapped search computes `max(0, ⌊log_p x⌋)` as well -/
theorem eveK_spec_gt (pn pd xn xd fuel : Nat) (hpd : 0 < pd) (hp : pd < pn) (hxn : 0 < xn) (hxd : 0 < xd)
    (hfuel : eveK pd pn xd xn fuel 0 < fuel) :
    (eveK pd pn xd xn fuel 0 : ℤ) = max ⌊Real.logb ((pn : ℝ) / pd) ((xn : ℝ) / xd)⌋ 0 := by
  rw [eveK_spec pd pn xd xn fuel hpd hp hxd hxn hfuel]
  have h1 : ((pd : ℝ) / pn) = ((pn : ℝ) / pd)⁻¹ := by rw [inv_div]
  have h2 : ((xd : ℝ) / xn) = ((xn : ℝ) / xd)⁻¹ := by rw [inv_div]
  rw [h1, h2, Real.logb_inv_base, Real.logb_inv, neg_neg]

theorem eveKAny_spec (pn pd xn xd fuel : Nat) (hpn : 0 < pn) (hpd : 0 < pd) (hne : pn ≠ pd) (hxn : 0 < xn) (hxd : 0 < xd)
    (hfuel : eveKAny pn pd xn xd fuel < fuel) :
    (eveKAny pn pd xn xd fuel : ℤ) = max ⌊Real.logb ((pn : ℝ) / pd) ((xn : ℝ) / xd)⌋ 0 := by
  unfold eveKAny at hfuel ⊢
  by_cases h : pn < pd
  · simp only [h, if_true] at hfuel ⊢
    exact eveK_spec pn pd xn xd fuel hpn h hxn hxd hfuel
  · simp only [h, if_false] at hfuel ⊢
    exact eveK_spec_gt pn pd xn xd fuel hpd (by omega) hxn hxd hfuel

theorem eveBatches_max (n0 : Nat) (nmax : Option Nat) (dt : ℤ) :
    eveBatches n0 nmax dt = eveBatches n0 nmax (max dt 0) := by
  simp [eveBatches]

/-- `code_dt`'s positive part is `max(0, ⌊log_p(v/v0)⌋)` unless the fractional part of the logarithm lies in the
`EPS` zone just below an integer (the "doubling boundaries") -/
theorem codeDt_max (v v0 p : ℝ) (hv : 0 < v) (hv0 : 0 < v0)
    (hfrac : Int.fract (Real.logb p (v / v0)) < 1 - EPS) :
    max (codeDt v v0 p) 0 = max ⌊Real.logb p (v / v0)⌋ 0 := by
  have hL : (Real.log v - Real.log v0) / Real.log p = Real.logb p (v / v0) := by
    rw [← Real.log_div hv.ne' hv0.ne', Real.log_div_log]
  unfold codeDt
  rw [hL, trunc_eq_floor_under_max]
  congr 1
  rw [Int.floor_eq_iff]
  have h1 := Int.floor_le (Real.logb p (v / v0))
  have h2 : Real.logb p (v / v0) - ⌊Real.logb p (v / v0)⌋ < 1 - EPS := hfrac
  have hE : (0 : ℝ) < EPS := by unfold EPS; norm_num
  constructor <;> linarith

/-- **C16, batch-count clause.**  For `v, v0 > 0` and the fractional part of `log_p(v/v0)` outside `[1-EPS, 1)`,
the code's rule sets `n_batches['train'] = min(n0 · 2^k, n_max)` with `k = max(0, ⌊log_p(v/v0)⌋)`
(`n_max = None` or `0` meaning no cap). -/
theorem eve_formula (v v0 p : ℝ) (hv : 0 < v) (hv0 : 0 < v0)
    (hfrac : Int.fract (Real.logb p (v / v0)) < 1 - EPS) (n0 : Nat) (nmax : Option Nat) :
    eveBatches n0 nmax (codeDt v v0 p) =
      (match nmax with
       | none => n0 * 2 ^ (max ⌊Real.logb p (v / v0)⌋ 0).toNat
       | some 0 => n0 * 2 ^ (max ⌊Real.logb p (v / v0)⌋ 0).toNat
       | some m => min (n0 * 2 ^ (max ⌊Real.logb p (v / v0)⌋ 0).toNat) m) := by
  rw [eveBatches_max, codeDt_max v v0 p hv hv0 hfrac]
  simp only [eveBatches]
  rw [max_eq_left (le_max_right _ _)]
  rfl

/-- the model's Eve step (exact rationals, no logarithm) equals the code's rule over the reals:
metric value `m/den`, `base_value = v0n/v0d`, `double_at = pn/pd` -/
theorem eve_model_eq_code (m den v0n v0d pn pd fuel n0 : Nat) (nmax : Option Nat)
    (hm : 0 < m) (hden : 0 < den) (hv0n : 0 < v0n) (hv0d : 0 < v0d) (hpn : 0 < pn) (hp : pn < pd)
    (hfuel : eveK pn pd (m * v0d) (den * v0n) fuel 0 < fuel)
    (hfrac : Int.fract (Real.logb ((pn : ℝ) / pd) (((m : ℝ) / den) / ((v0n : ℝ) / v0d))) < 1 - EPS) :
    eveBatches n0 nmax (eveK pn pd (m * v0d) (den * v0n) fuel 0 : ℤ) =
      eveBatches n0 nmax (codeDt ((m : ℝ) / den) ((v0n : ℝ) / v0d) ((pn : ℝ) / pd)) := by
  have hx : (((m * v0d : ℕ) : ℝ) / ((den * v0n : ℕ) : ℝ)) = ((m : ℝ) / den) / ((v0n : ℝ) / v0d) := by
    push_cast
    have : (den : ℝ) ≠ 0 := by positivity
    have : (v0n : ℝ) ≠ 0 := by positivity
    have : (v0d : ℝ) ≠ 0 := by positivity
    field_simp
  rw [eveBatches_max n0 nmax (codeDt _ _ _), codeDt_max _ _ _ (by positivity) (by positivity) hfrac,
    eveK_spec pn pd _ _ fuel hpn hp (by positivity) (by positivity) hfuel, hx]

/-- the same for every base `double_at ≠ 1`, below or above 1 (what the model's Eve action uses) -/
theorem eve_model_eq_code_any (m den v0n v0d pn pd fuel n0 : Nat) (nmax : Option Nat)
    (hm : 0 < m) (hden : 0 < den) (hv0n : 0 < v0n) (hv0d : 0 < v0d) (hpn : 0 < pn) (hpd : 0 < pd) (hne : pn ≠ pd)
    (hfuel : eveKAny pn pd (m * v0d) (den * v0n) fuel < fuel)
    (hfrac : Int.fract (Real.logb ((pn : ℝ) / pd) (((m : ℝ) / den) / ((v0n : ℝ) / v0d))) < 1 - EPS) :
    eveBatches n0 nmax (eveKAny pn pd (m * v0d) (den * v0n) fuel : ℤ) =
      eveBatches n0 nmax (codeDt ((m : ℝ) / den) ((v0n : ℝ) / v0d) ((pn : ℝ) / pd)) := by
  have hx : (((m * v0d : ℕ) : ℝ) / ((den * v0n : ℕ) : ℝ)) = ((m : ℝ) / den) / ((v0n : ℝ) / v0d) := by
    push_cast
    have : (den : ℝ) ≠ 0 := by positivity
    have : (v0n : ℝ) ≠ 0 := by positivity
    have : (v0d : ℝ) ≠ 0 := by positivity
    field_simp
  rw [eveBatches_max n0 nmax (codeDt _ _ _), codeDt_max _ _ _ (by positivity) (by positivity) hfrac,
    eveKAny_spec pn pd _ _ fuel hpn hpd hne (by positivity) (by positivity) hfuel, hx]

/-- a base above 1: `v = 8`, `v0 = 1`, `p = 2` gives k = 3 -/
example : eveKAny 2 1 (8 * 1) (1 * 1) 200 = 3 := by decide

/-- non-vacuity of `eve_formula` / `eve_model_eq_code`: `v = 1/4`, `v0 = 1`, `p = 1/2` (k = 2, 4·n0 batches) -/
example : Int.fract (Real.logb (1 / 2 : ℝ) ((1 / 4) / 1)) < 1 - EPS := by
  have : Real.logb (1 / 2 : ℝ) ((1 / 4) / 1) = (2 : ℕ) := by
    rw [show ((1 : ℝ) / 4) / 1 = (1 / 2) ^ (2 : ℕ) by norm_num, Real.logb_pow,
      Real.logb_self_eq_one_iff.mpr ⟨by norm_num, by norm_num, by norm_num⟩]
    norm_num
  rw [this, Int.fract_natCast]; unfold EPS; norm_num
example : eveK 1 2 (1 * 1) (4 * 1) 200 0 = 2 := by decide

/-- a non-integer instance: `v = 3/8`, `v0 = 1`, `p = 1/2`: `log_p(v/v0) = log₂(8/3) ∈ [1, 3/2]` -/
example : Int.fract (Real.logb (1 / 2 : ℝ) ((3 / 8) / 1)) < 1 - EPS := by
  have hp0 : (0 : ℝ) < 1 / 2 := by norm_num
  have hp1 : (1 / 2 : ℝ) < 1 := by norm_num
  have hx : (0 : ℝ) < (3 / 8) / 1 := by norm_num
  have h1 : (1 : ℝ) ≤ Real.logb (1 / 2) ((3 / 8) / 1) := by
    rw [Real.le_logb_iff_rpow_le_of_base_lt_one hp0 hp1 hx, Real.rpow_one]; norm_num
  have h2 : Real.logb (1 / 2 : ℝ) ((3 / 8) / 1) ≤ 3 / 2 := by
    rw [Real.logb_le_iff_le_rpow_of_base_lt_one hp0 hp1 hx]
    have hnn : (0 : ℝ) ≤ (1 / 2 : ℝ) ^ (3 / 2 : ℝ) := Real.rpow_nonneg hp0.le _
    have hsq : ((1 / 2 : ℝ) ^ (3 / 2 : ℝ)) ^ 2 = 1 / 8 := by
      rw [← Real.rpow_natCast, ← Real.rpow_mul hp0.le]
      norm_num
    have : ((1 / 2 : ℝ) ^ (3 / 2 : ℝ)) ^ 2 ≤ ((3 / 8) / 1 : ℝ) ^ 2 := by rw [hsq]; norm_num
    exact (pow_le_pow_iff_left₀ hnn (by norm_num) (by norm_num)).mp this
  have hfl : ⌊Real.logb (1 / 2 : ℝ) ((3 / 8) / 1)⌋ = 1 := by
    rw [Int.floor_eq_iff]; constructor <;> push_cast <;> linarith
  unfold Int.fract EPS
  rw [hfl]; push_cast; linarith

/-- the model's Eve action applies exactly that rule to `history[-1]` of the configured phase -/
theorem eve_action (idx : Nat) (s : Solver) (c : EveCfg) (v : Int) (rest : List Int) (hv : 0 < v)
    (hh : (if c.useTrain then s.train else s.valid) = v :: rest) :
    ((Action.eve c).run idx s).1.nTrain =
      eveBatches c.n0 c.nmax (eveKAny c.pn c.pd (v.toNat * c.v0d) (c.den * c.v0n) eveFuel : Nat) := by
  simp only [Action.run, hh]
  rw [if_neg (by omega)]

end NdeVerif.C16
