/-
  C08 for every number of coordinates: hand models of `operators.grad`, `div`, `laplacian` over `Ex` (one symbolic partial
  derivative per coordinate, sums in coordinate order) and their textbook meaning for every arity, every total expression
  and every smooth interpretation.  `Gen/C08` ties the traced operators to these models for the arities it traces.
-/
import NdeVerif.Calc.Lemmas

namespace NdeVerif.C08
open NdeVerif NdeVerif.Ex

/-- `operators.grad(u, *xs)`: one partial derivative per coordinate, in the order of the coordinates -/
def gradM (u : Ex) (xs : List Nat) : List Ex := xs.map (fun x => u.D x)

/-- `operators.div(*us, *xs)`: sum of the diagonal partials -/
def divM : List Ex → List Nat → Ex
  | u :: us, x :: xs => .add (u.D x) (divM us xs)
  | _, _ => .nat 0

/-- `operators.laplacian(u, *xs)`: sum of the unmixed second partials -/
def lapM (u : Ex) : List Nat → Ex
  | [] => .nat 0
  | x :: xs => .add ((u.D x).D x) (lapM u xs)

theorem gradM_length (u : Ex) (xs : List Nat) : (gradM u xs).length = xs.length := by simp [gradM]

theorem gradM_getElem (u : Ex) (xs : List Nat) (i : Nat) (h : i < xs.length) :
    (gradM u xs)[i]'(by simpa [gradM] using h) = u.D xs[i] := by simp [gradM]

/-- every component of the gradient is the partial derivative with respect to its coordinate, all others held fixed -/
theorem grad_sound (I : Interp) (hI : Smooth I) (u : Ex) (hu : u.total) (xs : List Nat) (ρ : Nat → ℝ) (i : Nat) (h : i < xs.length) :
    HasDerivAt (fun v => u.eval I (Function.update ρ xs[i] v))
      (((gradM u xs)[i]'(by simpa [gradM] using h)).eval I ρ) (ρ xs[i]) := by
  rw [gradM_getElem u xs i h]
  exact D_sound I hI xs[i] u ρ (ok_of_total I ρ u hu)

/-- the Laplacian is the laplacian of the gradient's divergence, syntactically, in every dimension -/
theorem lapM_eq_div_grad (u : Ex) (xs : List Nat) : lapM u xs = divM (gradM u xs) xs := by
  induction xs with
  | nil => rfl
  | cons x xs ih => simp only [lapM, gradM, List.map_cons, divM] at ih ⊢; rw [ih]

theorem lapM_eval (I : Interp) (ρ : Nat → ℝ) (u : Ex) (xs : List Nat) :
    (lapM u xs).eval I ρ = (xs.map (fun x => ((u.D x).D x).eval I ρ)).sum := by
  induction xs with
  | nil => simp [lapM, Ex.eval]
  | cons x xs ih => simp [lapM, Ex.eval, ih]

/-- the second symbolic partial is the second derivative of the section, for total expressions -/
theorem second_partial_sound (I : Interp) (hI : Smooth I) (u : Ex) (hu : u.total) (x : Nat) (ρ : Nat → ℝ) :
    deriv^[2] (fun v => u.eval I (Function.update ρ x v)) (ρ x) = ((u.D x).D x).eval I ρ := by
  have h := congrFun (iterD_sound I hI x u hu ρ 2) (ρ x)
  simpa [iterD, Function.update_eq_self] using h

/-- **textbook Laplacian in any dimension**: the model's value is the sum over the coordinates of the second derivative of
the field along that coordinate -/
theorem lap_sound (I : Interp) (hI : Smooth I) (u : Ex) (hu : u.total) (xs : List Nat) (ρ : Nat → ℝ) :
    (lapM u xs).eval I ρ = (xs.map (fun x => deriv^[2] (fun v => u.eval I (Function.update ρ x v)) (ρ x))).sum := by
  rw [lapM_eval]
  congr 1
  apply List.map_congr_left
  intro x _
  exact (second_partial_sound I hI u hu x ρ).symm

theorem divM_eval (I : Interp) (ρ : Nat → ℝ) : ∀ (us : List Ex) (xs : List Nat),
    (divM us xs).eval I ρ = (List.zipWith (fun u x => (u.D x).eval I ρ) us xs).sum
  | [], _ => by simp [divM, Ex.eval]
  | _ :: _, [] => by simp [divM, Ex.eval]
  | u :: us, x :: xs => by simp [divM, Ex.eval, divM_eval I ρ us xs]

/-- every summand of the divergence is the partial derivative of its component along its own coordinate -/
theorem div_summand_sound (I : Interp) (hI : Smooth I) (u : Ex) (hu : u.total) (x : Nat) (ρ : Nat → ℝ) :
    HasDerivAt (fun v => u.eval I (Function.update ρ x v)) ((u.D x).eval I ρ) (ρ x) :=
  D_sound I hI x u ρ (ok_of_total I ρ u hu)

/-- the results are again total expressions: operators can be composed in any dimension -/
theorem gradM_total (u : Ex) (hu : u.total) (xs : List Nat) : ∀ e ∈ gradM u xs, e.total := by
  intro e he
  simp only [gradM, List.mem_map] at he
  obtain ⟨x, _, rfl⟩ := he
  exact total_D x u hu

theorem lapM_total (u : Ex) (hu : u.total) (xs : List Nat) : (lapM u xs).total := by
  induction xs with
  | nil => simp [lapM, Ex.total]
  | cons x xs ih => exact ⟨total_D x _ (total_D x u hu), ih⟩

/-- non-vacuity: a six-dimensional field symbol; its model Laplacian has six summands -/
example : (lapM (.app 0 6 ![0,0,0,0,0,0] ![.var 0, .var 1, .var 2, .var 3, .var 4, .var 5]) [0,1,2,3,4,5]).total := by
  apply lapM_total
  intro i; fin_cases i <;> simp [Ex.total]

end NdeVerif.C08
