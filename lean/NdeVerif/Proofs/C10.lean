/-
  C10 for every number of extra input columns: a hand model of `_BundleConditionMixin._get_parameter` and of the three
  bundle parameterisations as functions of the RESOLVED parameters, with the property proved for every lookup table
  (any assignment of names to indices, names may share a column), every tuple of columns of any length, every network
  value and every row.  The generated module `Gen/C10` ties the traced code to these reference forms for every lookup over
  4 columns (`*_is_model` theorems).
-/
import Mathlib.Analysis.SpecialFunctions.Exp
import Mathlib.Analysis.Calculus.Deriv.Mul
import Mathlib.Analysis.Calculus.Deriv.Pow
import Mathlib.Analysis.SpecialFunctions.ExpDeriv
import Mathlib.Tactic.Ring
import Mathlib.Tactic.FieldSimp

namespace NdeVerif.C10

/-- Python's `thetas[i]` for a tuple: non-negative indices count from the front, negative ones from the back; `none` = IndexError -/
def pyGet (l : List ℝ) (i : Int) : Option ℝ :=
  if 0 ≤ i then l[i.toNat]? else if i.natAbs ≤ l.length then l[l.length - i.natAbs]? else none

/-- `_get_parameter(name, thetas)`: a name in the lookup table reads the column with the stated index (Python indexing, so
`-1` is the last column; `none` = IndexError when the tuple of columns is too short), any other name reads the constructor
attribute -/
def getParam (lookup : List (String × Int)) (ctor : String → ℝ) (thetas : List ℝ) (name : String) : Option ℝ :=
  match lookup.lookup name with
  | some i => pyGet thetas i
  | none => some (ctor name)

/-- columns not named in the table never influence a parameter: two tuples of columns (of any lengths) that agree on the
named indices resolve every parameter alike -/
theorem getParam_congr (lookup : List (String × Int)) (ctor : String → ℝ) (θ θ' : List ℝ)
    (h : ∀ name i, lookup.lookup name = some i → pyGet θ i = pyGet θ' i) (name : String) :
    getParam lookup ctor θ name = getParam lookup ctor θ' name := by
  unfold getParam
  cases hl : lookup.lookup name with
  | none => rfl
  | some i => exact h name i hl

theorem getParam_named (lookup : List (String × Int)) (ctor : String → ℝ) (θ : List ℝ) (name : String) (i : Int)
    (h : lookup.lookup name = some i) : getParam lookup ctor θ name = pyGet θ i := by
  simp [getParam, h]

theorem getParam_unnamed (lookup : List (String × Int)) (ctor : String → ℝ) (θ : List ℝ) (name : String)
    (h : lookup.lookup name = none) : getParam lookup ctor θ name = some (ctor name) := by
  simp [getParam, h]

/-- a negative index in the table is a column, not "absent": it never falls back to the constructor value -/
theorem getParam_negative_is_column (lookup : List (String × Int)) (ctor : String → ℝ) (θ : List ℝ) (name : String) (k : Nat)
    (h : lookup.lookup name = some (-(k + 1 : Int))) (hk : k < θ.length) :
    getParam lookup ctor θ name = θ[θ.length - (k + 1)]? := by
  have hneg : ¬ (0 : Int) ≤ -(k + 1 : Int) := by omega
  have habs : (-(k + 1 : Int)).natAbs = k + 1 := by omega
  simp only [getParam, h, pyGet]
  rw [if_neg hneg, habs, if_pos (by omega)]

/-- `BundleIVP.parameterize`, value mode: `u_0 + (1 - exp(-t + t_0)) * N` -/
noncomputable def ivpD (t0 u0 N t : ℝ) : ℝ := u0 + (1 - Real.exp (-t + t0)) * N
/-- `BundleIVP.parameterize`, value + derivative mode -/
noncomputable def ivpN (t0 u0 up N t : ℝ) : ℝ := u0 + (t - t0) * up + (1 - Real.exp (-t + t0)) ^ 2 * N
/-- `BundleDirichletBVP.parameterize` -/
noncomputable def bvp (t0 u0 t1 u1 N t : ℝ) : ℝ :=
  u0 * (1 - (t - t0) / (t1 - t0)) + u1 * ((t - t0) / (t1 - t0)) +
    (1 - Real.exp ((1 - (t - t0) / (t1 - t0)) * ((t - t0) / (t1 - t0)))) * N

/-- the row-wise guarantee for ANY lookup table, any number of columns and any network value: at `t = t_0` of the row the
enforced value is the row's `u_0`, whatever the sources of the two parameters are -/
theorem bundleIVP_value (lookup : List (String × Int)) (ctor : String → ℝ) (θ : List ℝ) (N : ℝ) (t0 u0 : ℝ)
    (_h0 : getParam lookup ctor θ "t_0" = some t0) (_h1 : getParam lookup ctor θ "u_0" = some u0) :
    ivpD t0 u0 N t0 = u0 := by
  simp [ivpD]

theorem bundleIVP_value_n (t0 u0 up N : ℝ) : ivpN t0 u0 up N t0 = u0 := by simp [ivpN]

/-- derivative mode: `d/dt` at the row's `t_0` is the row's `u_0'`, for every differentiable network section `N` -/
theorem bundleIVP_deriv (t0 u0 up : ℝ) (N : ℝ → ℝ) (N' : ℝ) (hN : HasDerivAt N N' t0) :
    HasDerivAt (fun t => ivpN t0 u0 up (N t) t) up t0 := by
  unfold ivpN
  have h1 : HasDerivAt (fun t : ℝ => u0 + (t - t0) * up) up t0 := by
    have := ((hasDerivAt_id t0).sub_const t0).mul_const up
    simpa using this.const_add u0
  have he : HasDerivAt (fun t : ℝ => 1 - Real.exp (-t + t0)) (Real.exp (-t0 + t0)) t0 := by
    have h := ((hasDerivAt_id t0).neg.add_const t0).exp
    have := h.const_sub 1
    simpa using this
  have h2 := (he.fun_pow 2).fun_mul hN
  have h3 := h1.fun_add h2
  have hv : up + ((2 : ℕ) * (1 - Real.exp (-t0 + t0)) ^ (2 - 1) * Real.exp (-t0 + t0) * N t0 +
      (1 - Real.exp (-t0 + t0)) ^ 2 * N') = up := by simp
  rw [hv] at h3
  exact h3

theorem bundleBVP_left (t0 u0 t1 u1 N : ℝ) (_h : t0 ≠ t1) : bvp t0 u0 t1 u1 N t0 = u0 := by
  simp [bvp]

theorem bundleBVP_right (t0 u0 t1 u1 N : ℝ) (h : t0 ≠ t1) : bvp t0 u0 t1 u1 N t1 = u1 := by
  have hd : t1 - t0 ≠ 0 := sub_ne_zero.mpr (Ne.symm h)
  simp [bvp, div_self hd]

/-- non-vacuity and an executable reading of the table: two names sharing column 2, a third from the constructor -/
example : getParam [("t_0", 2), ("u_0", 2)] (fun _ => 7) [10, 11, 12] "u_0" = some 12 ∧
          getParam [("t_0", 2), ("u_0", 2)] (fun _ => 7) [10, 11, 12] "u_0_prime" = some 7 ∧
          getParam [("t_0", 5)] (fun _ => 7) [10, 11, 12] "t_0" = none := by
  refine ⟨?_, ?_, ?_⟩ <;> simp [getParam, List.lookup, pyGet]

example : getParam [("u_0", -1)] (fun _ => 7) [10, 11, 12] "u_0" = some 12 ∧ getParam [("u_0", -4)] (fun _ => 7) [10, 11, 12] "u_0" = none := by
  constructor <;> simp [getParam, List.lookup, pyGet]

end NdeVerif.C10
