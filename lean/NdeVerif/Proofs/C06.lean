/-
  C06 — solutions are snapshots (copy=True), live views (copy=False, best=False), and keep the input shape.
-/
import NdeVerif.Model.Solution
import NdeVerif.Proofs.SolverLemmas

namespace NdeVerif.C06
open NdeVerif.Solver NdeVerif.Solution

/-- **copy=True**: whatever happens to the solver afterwards (any sequence of fits, with any oracles and callback
schedule), the solution keeps evaluating with the parameters it captured -/
theorem copy_isolated (c : Cfg) (sched) (ms : List Nat) (call : Nat) (s : State) (best : Bool) (sol : Sol)
    (h : getSolution true best s = some sol) :
    evalθ (fits c sched call ms s) sol = evalθ s sol := by
  cases best with
  | true =>
    simp only [getSolution, if_true] at h
    cases hb : s.best with
    | none => simp [hb] at h
    | some θ => simp [hb] at h; subst h; rfl
  | false => simp [getSolution] at h; subst h; rfl

/-- what the copied solution captured: the best snapshot, or the current parameters -/
theorem copy_captures (s : State) (best : Bool) (sol : Sol) (h : getSolution true best s = some sol) :
    (best = true → some (evalθ s sol) = s.best) ∧ (best = false → evalθ s sol = s.θ) := by
  cases best with
  | true =>
    simp only [getSolution, if_true] at h
    cases hb : s.best with
    | none => simp [hb] at h
    | some θ => simp [hb] at h; subst h; simp [evalθ]
  | false => simp [getSolution] at h; subst h; simp [evalθ]

/-- **copy=False, best=False**: the solution shares the solver's live networks — after any further training it
evaluates with the solver's current parameters -/
theorem nocopy_live (c : Cfg) (sched) (ms : List Nat) (call : Nat) (s : State) :
    getSolution false false s = some .live ∧
    evalθ (fits c sched call ms s) .live = (fits c sched call ms s).θ := ⟨rfl, rfl⟩

/-- `best=True` before any loss was recorded is rejected, and only then (given the C05 invariant) -/
theorem best_none_rejected (copy : Bool) (s : State) : getSolution copy true s = none ↔ s.best = none := by
  cases copy <;> simp [getSolution]

/-- a handle on `best_nets` is frozen even without copying: later training rebinds, never mutates, the snapshot -/
theorem nocopy_best_frozen (c : Cfg) (sched) (ms : List Nat) (call : Nat) (s : State) (sol : Sol)
    (h : getSolution false true s = some sol) : evalθ (fits c sched call ms s) sol = evalθ s sol := by
  simp only [getSolution, if_true] at h
  cases hb : s.best with
  | none => simp [hb] at h
  | some θ => simp [hb] at h; subst h; rfl

/-! ### shapes -/

/-- results come back in the shape of the first coordinate; a list iff there are several unknowns; numpy iff asked -/
theorem solution_shape (n : Nat) (sh : List Nat) (np : Bool) :
    callShape n sh np false = (if n > 1 then Out.many n sh np else Out.single sh np) := by
  simp [callShape]

theorem solution_shape_noreshape (n : Nat) (sh : List Nat) (np : Bool) :
    callShape n sh np true = (if n > 1 then Out.many n [numel sh, 1] np else Out.single [numel sh, 1] np) := by
  simp [callShape]

example : callShape 1 [3, 4] true false = .single [3, 4] true := by decide
example : callShape 3 [5] false false = .many 3 [5] false := by decide

end NdeVerif.C06
