/-
  C14 — the batch generator streams samples without loss, duplication or reordering.
  Theorems about `NdeVerif.Batch` (the model tied to the code by the correspondence check of ./check C14).
-/
import NdeVerif.Model.Batch

namespace NdeVerif.C14
open NdeVerif.Batch

/-- the `d`-th dimension of the first `m` draws, concatenated in draw order -/
def streamDim (src : Nat → List (List Val)) (d m : Nat) : List Val :=
  (List.range m).flatMap (fun k => (src k).getD d [])

theorem streamDim_succ (src) (d m : Nat) :
    streamDim src d (m+1) = streamDim src d m ++ (src m).getD d [] := by
  simp [streamDim, List.range_succ, List.flatMap_append]

/-- well-formed source: every draw has `n` dimensions of a common length -/
def WF (src : Nat → List (List Val)) (n : Nat) : Prop :=
  ∀ k, (src k).length = n ∧ ∀ d d', d < n → d' < n → ((src k).getD d []).length = ((src k).getD d' []).length

/-- invariant linking what has been delivered in dimension `d`, what is cached, and the underlying stream -/
def Inv (src : Nat → List (List Val)) (n : Nat) (delivered : Nat → List Val) (s : BState) : Prop :=
  s.cached.length = n ∧ ∀ d, d < n → delivered d ++ s.cached.getD d [] = streamDim src d s.next

theorem getD_zipWith_append (a b : List (List Val)) (d : Nat) (h : a.length = b.length) :
    (List.zipWith (· ++ ·) a b).getD d [] = a.getD d [] ++ b.getD d [] := by
  induction a generalizing b d with
  | nil => cases b <;> simp_all
  | cons x xs ih =>
    cases b with
    | nil => simp at h
    | cons y ys =>
      cases d with
      | zero => simp
      | succ d => simpa using ih ys d (by simpa using h)

theorem refill_inv (src) (n bs : Nat) (hwf : WF src n) (delivered) :
    ∀ fuel s, Inv src n delivered s → Inv src n delivered (refill src bs fuel s) := by
  intro fuel
  induction fuel with
  | zero => intro s h; simpa [refill] using h
  | succ fuel ih =>
    intro s h
    simp only [refill]
    split
    · apply ih
      refine ⟨by simp [h.1, (hwf s.next).1], ?_⟩
      intro d hd
      show delivered d ++ (List.zipWith (· ++ ·) s.cached (src s.next)).getD d [] = streamDim src d (s.next + 1)
      rw [getD_zipWith_append _ _ _ (by rw [h.1, (hwf s.next).1]), streamDim_succ, ← h.2 d hd, List.append_assoc]
    · exact h

theorem getD_map (f : List Val → List Val) (hf : f [] = []) (c : List (List Val)) (d : Nat) :
    (c.map f).getD d [] = f (c.getD d []) := by
  simp only [List.getD_eq_getElem?_getD, List.getElem?_map]
  cases c[d]? <;> simp [hf]

/-- one call: the delivered prefix grows by exactly the returned batch, in every dimension -/
theorem get_inv (src) (n bs fuel : Nat) (hwf : WF src n) (delivered) (s : BState) (h : Inv src n delivered s) :
    Inv src n (fun d => delivered d ++ ((get src bs fuel s).2).getD d []) (get src bs fuel s).1 := by
  have h' := refill_inv src n bs hwf delivered fuel s h
  simp only [Batch.get]
  refine ⟨by simp [h'.1], ?_⟩
  intro d hd
  simp only []
  rw [getD_map _ (by simp), getD_map _ (by simp), List.append_assoc, List.take_append_drop]
  exact h'.2 d hd

/-- all batches of `k` calls, dimension `d`, concatenated in call order -/
def deliveredDim (batches : List (List (List Val))) (d : Nat) : List Val :=
  batches.flatMap (fun b => b.getD d [])

/-- **C14, stream clause.**  After any number of calls, in every dimension, (batches concatenated in call
order) ++ (cache) = (the draws taken so far, concatenated in draw order): nothing lost, duplicated or
reordered; the same number of draws and the same cut points in every dimension (rows stay paired). -/
theorem batch_stream (src) (n bs fuel : Nat) (hwf : WF src n) :
    ∀ k s delivered, Inv src n delivered s →
      let r := calls src bs fuel k s
      r.1.cached.length = n ∧
      ∀ d, d < n → delivered d ++ deliveredDim r.2 d ++ r.1.cached.getD d [] = streamDim src d r.1.next := by
  intro k
  induction k with
  | zero => intro s delivered h; simpa [calls, deliveredDim, Inv] using h
  | succ k ih =>
    intro s delivered h
    have h1 := get_inv src n bs fuel hwf delivered s h
    have := ih (get src bs fuel s).1 _ h1
    simp only [calls]
    refine ⟨this.1, ?_⟩
    intro d hd
    have t := this.2 d hd
    simp only [deliveredDim, List.flatMap_cons] at t ⊢
    rw [← t]; simp [List.append_assoc]

theorem init_inv (src) (n : Nat) (hwf : WF src n) : Inv src n (fun _ => []) (init src) := by
  refine ⟨(hwf 0).1, ?_⟩
  intro d _
  simp [init, streamDim]

/-- corollary from a fresh generator -/
theorem batch_stream_from_init (src) (n bs fuel k : Nat) (hwf : WF src n) :
    let r := calls src bs fuel k (init src)
    ∀ d, d < n → deliveredDim r.2 d ++ r.1.cached.getD d [] = streamDim src d r.1.next := by
  intro r d hd
  have := (batch_stream src n bs fuel hwf k (init src) (fun _ => []) (init_inv src n hwf)).2 d hd
  simpa using this

/-! ### batch size and termination of the refill loop -/

theorem firstLen_zipWith (a b : List (List Val)) (h : a.length = b.length) (ha : 0 < a.length) :
    firstLen (List.zipWith (· ++ ·) a b) = firstLen a + firstLen b := by
  cases a with
  | nil => simp at ha
  | cons x xs => cases b with
    | nil => simp at h
    | cons y ys => simp [firstLen]

/-- with non-empty draws, `bs` units of fuel are enough for the loop to exit with a full batch cached -/
theorem refill_enough (src) (n bs : Nat) (hn : 0 < n) (hwf : WF src n)
    (hne : ∀ k, 0 < firstLen (src k)) :
    ∀ fuel s, s.cached.length = n → bs ≤ firstLen s.cached + fuel →
      bs ≤ firstLen (refill src bs fuel s).cached := by
  intro fuel
  induction fuel with
  | zero => intro s _ h; simpa [refill] using h
  | succ fuel ih =>
    intro s hs h
    simp only [refill]
    split
    · apply ih
      · simp [hs, (hwf s.next).1]
      · show bs ≤ firstLen (List.zipWith (· ++ ·) s.cached (src s.next)) + fuel
        rw [firstLen_zipWith _ _ (by rw [hs, (hwf s.next).1]) (by omega)]
        have := hne s.next
        omega
    · omega

theorem refill_cached_length (src) (n bs : Nat) (hwf : WF src n) :
    ∀ fuel s, s.cached.length = n → (refill src bs fuel s).cached.length = n := by
  intro fuel
  induction fuel with
  | zero => intro s h; simpa [refill] using h
  | succ fuel ih =>
    intro s h
    simp only [refill]
    split
    · apply ih; simp [h, (hwf s.next).1]
    · exact h

/-- all cached dimensions keep a common length (so the slice cuts every dimension at the same row) -/
def Aligned (c : List (List Val)) : Prop := ∀ x ∈ c, x.length = firstLen c

theorem aligned_zipWith (a b : List (List Val)) (h : a.length = b.length) (ha : Aligned a) (hb : Aligned b) :
    Aligned (List.zipWith (· ++ ·) a b) := by
  cases a with
  | nil => intro x hx; simp at hx
  | cons x xs =>
    cases b with
    | nil => simp at h
    | cons y ys =>
      intro z hz
      simp only [List.zipWith_cons_cons, List.mem_cons] at hz
      simp only [firstLen, List.zipWith_cons_cons, List.headD_cons, List.length_append]
      rcases hz with rfl | hz
      · simp
      · obtain ⟨i, hi, rfl⟩ := List.getElem_of_mem hz
        simp only [List.getElem_zipWith, List.length_append]
        have h1 := ha (xs[i]'(by simpa using (by simp at hi; omega))) (by simp)
        have h2 := hb (ys[i]'(by simp at hi h; omega)) (by simp)
        simp only [firstLen, List.headD_cons] at h1 h2
        omega

theorem wf_aligned (src) (n : Nat) (hwf : WF src n) (k : Nat) : Aligned (src k) := by
  intro x hx
  obtain ⟨i, hi, rfl⟩ := List.getElem_of_mem hx
  have hlen := (hwf k).1
  by_cases hn : n = 0
  · omega
  have := (hwf k).2 i 0 (by omega) (by omega)
  simp only [List.getD_eq_getElem?_getD, List.getElem?_eq_getElem hi, Option.getD_some] at this
  rw [this]
  cases hsrc : src k with
  | nil => simp [hsrc] at hi
  | cons y ys => simp [firstLen]

theorem refill_aligned (src) (n bs : Nat) (hwf : WF src n) :
    ∀ fuel s, s.cached.length = n → Aligned s.cached → Aligned (refill src bs fuel s).cached := by
  intro fuel
  induction fuel with
  | zero => intro s _ h; simpa [refill] using h
  | succ fuel ih =>
    intro s hs h
    simp only [refill]
    split
    · apply ih
      · simp [hs, (hwf s.next).1]
      · exact aligned_zipWith _ _ (by rw [hs, (hwf s.next).1]) h (wf_aligned src n hwf _)
    · exact h

/-- **C14, size clause.**  Every dimension of every returned batch has exactly `bs` entries, whether `bs` is
smaller or larger than the underlying size — provided every underlying draw is non-empty. -/
theorem batch_size_exact (src) (n bs : Nat) (hn : 0 < n) (hwf : WF src n) (hne : ∀ k, 0 < firstLen (src k))
    (s : BState) (hs : s.cached.length = n) (hal : Aligned s.cached) :
    ∀ x ∈ (get src bs bs s).2, x.length = bs := by
  intro x hx
  simp only [Batch.get, List.mem_map] at hx
  obtain ⟨c, hc, rfl⟩ := hx
  have hfull := refill_enough src n bs hn hwf hne bs s hs (by omega)
  have hal' := refill_aligned src n bs hwf bs s hs hal
  rw [List.length_take, hal' c hc]
  omega

/-- non-vacuity: a concrete 2-dimensional source of varying draw sizes satisfies the hypotheses -/
def exSrc : Nat → List (List Val) := fun k => [[(10 * k : Int), 10 * k + 1], [(-10 * k : Int), -10 * k - 1]]
example : WF exSrc 2 := by
  intro k; refine ⟨rfl, ?_⟩; intro d d' hd hd'
  have : d = 0 ∨ d = 1 := by omega
  have : d' = 0 ∨ d' = 1 := by omega
  rcases ‹d = 0 ∨ d = 1› with rfl | rfl <;> rcases ‹d' = 0 ∨ d' = 1› with rfl | rfl <;> simp [exSrc]
example : (calls exSrc 3 3 2 (init exSrc)).2 = [[[0, 1, 10], [0, -1, -10]], [[11, 20, 21], [-11, -20, -21]]] := by
  decide

end NdeVerif.C14
