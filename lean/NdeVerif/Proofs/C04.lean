/-
  C04 — a training epoch optimises exactly the user's residual loss on its batches.
  Theorems about `NdeVerif.Solver` (bookkeeping of draws, losses and optimiser steps; independence of the parameter
  trajectory from validation) and about the small routing models of `NdeVerif.Routing` (bundle-parameter selection,
  coordinate truncation in the spherical solver, loss-function dispatch).
-/
import NdeVerif.Proofs.SolverLemmas
import NdeVerif.Model.Routing

namespace NdeVerif.C04
open NdeVerif.Solver

/-! ### draws, losses, steps -/

/-- a training epoch draws exactly `n_batches_train` batches from the training generator and none from the
validation generator; a validation epoch the converse -/
theorem trainEpoch_draws (c : Cfg) (s : State) :
    (trainEpoch c s).trainDraws = s.trainDraws + s.nTrain ∧ (trainEpoch c s).validDraws = s.validDraws := by
  by_cases hn : s.nTrain = 0
  · rw [trainEpoch_skip c s hn]; simp [hn]
  cases hk : s.optKind with
  | plain =>
    have := core_fields _ _ (core_trainEpoch_plain c s hn hk)
    exact ⟨this.2.2.2.2.2.2.2.2.2.2.2.2.2.2.1, this.2.2.2.2.2.2.2.2.2.2.2.2.2.2.2.1⟩
  | closure =>
    obtain ⟨v, ms, hc⟩ := core_trainEpoch_closure c s hn hk
    have := core_fields _ _ hc
    exact ⟨this.2.2.2.2.2.2.2.2.2.2.2.2.2.2.1, this.2.2.2.2.2.2.2.2.2.2.2.2.2.2.2.1⟩

theorem validEpoch_draws (c : Cfg) (s : State) :
    (validEpoch c s).validDraws = s.validDraws + s.nValid ∧ (validEpoch c s).trainDraws = s.trainDraws := by
  by_cases hn : s.nValid = 0
  · rw [validEpoch_skip c s hn]; simp [hn]
  have := core_fields _ _ (core_validEpoch c s hn)
  exact ⟨this.2.2.2.2.2.2.2.2.2.2.2.2.2.2.2.1, this.2.2.2.2.2.2.2.2.2.2.2.2.2.2.1⟩

/-- plain optimisers: the recorded training loss is the mean over the epoch's batches of the per-batch loss, all
evaluated at the SAME parameters (no step between batches); then exactly one optimiser step -/
theorem train_epoch_plain (c : Cfg) (s : State) (hn : s.nTrain ≠ 0) (hk : s.optKind = .plain) :
    (trainEpoch c s).trainLoss =
      s.trainLoss ++ [sumRange (fun b => c.loss s.lossId s.θ true b) s.trainDraws s.nTrain / (s.nTrain : Int)] ∧
    (trainEpoch c s).θ = s.θ + c.plainStep s.steps ∧ (trainEpoch c s).steps = s.steps + 1 := by
  have := core_fields _ _ (core_trainEpoch_plain c s hn hk)
  exact ⟨this.2.2.2.2.2.1, this.1, this.2.2.2.2.2.2.2.2.2.2.2.2.2.2.2.2.1⟩

/-- the mean is exact whenever the sum is divisible (always the case in the scripted correspondence world) -/
theorem mean_exact (sum : Int) (n : Nat) (h : (n : Int) ∣ sum) (hn : n ≠ 0) : sum / (n : Int) * (n : Int) = sum :=
  Int.ediv_mul_cancel h

/-- closure-based optimisers: one optimiser step per batch -/
theorem train_epoch_closure_steps (c : Cfg) (s : State) (hn : s.nTrain ≠ 0) (hk : s.optKind = .closure) :
    (trainEpoch c s).steps = s.steps + s.nTrain ∧ (trainEpoch c s).θ = closureθ c s.steps s.θ s.nTrain := by
  obtain ⟨v, ms, hc⟩ := core_trainEpoch_closure c s hn hk
  have := core_fields _ _ hc
  exact ⟨this.2.2.2.2.2.2.2.2.2.2.2.2.2.2.2.2.1, this.1⟩

/-- a validation epoch changes no parameter, takes no optimiser step -/
theorem validEpoch_params_unchanged (c : Cfg) (s : State) :
    (validEpoch c s).θ = s.θ ∧ (validEpoch c s).steps = s.steps := by
  by_cases hn : s.nValid = 0
  · rw [validEpoch_skip c s hn]; exact ⟨rfl, rfl⟩
  have := core_fields _ _ (core_validEpoch c s hn)
  exact ⟨this.1, this.2.2.2.2.2.2.2.2.2.2.2.2.2.2.2.2.1⟩

/-- the validation loss is the mean over the validation batches at the current parameters -/
theorem valid_epoch_loss (c : Cfg) (s : State) (hn : s.nValid ≠ 0) :
    (validEpoch c s).validLoss =
      s.validLoss ++ [sumRange (fun b => c.loss s.lossId s.θ false b) s.validDraws s.nValid / (s.nValid : Int)] :=
  (core_fields _ _ (core_validEpoch c s hn)).2.2.2.2.2.2.1

/-! ### the parameter trajectory does not depend on validation -/

/-- what the training phase reads and writes -/
structure TView where
  θ : Int
  optKind : OptKind
  lossId : Nat
  nTrain : Nat
  trainLoss : List Val
  trainMetric : List (List Val)
  localEpoch : Nat
  maxLocal : Nat
  stop : Bool
  trainDraws : Nat
  steps : Nat
  deriving DecidableEq

def tview (s : State) : TView :=
  ⟨s.θ, s.optKind, s.lossId, s.nTrain, s.trainLoss, s.trainMetric, s.localEpoch, s.maxLocal, s.stop, s.trainDraws, s.steps⟩

/-- two oracle sets that agree on everything consulted during training (they may differ arbitrarily on validation) -/
def TrainAgree (c c' : Cfg) : Prop :=
  (∀ l θ i, c.loss l θ true i = c'.loss l θ true i) ∧ (∀ m θ i, c.metric m θ true i = c'.metric m θ true i) ∧
  c.nMetrics = c'.nMetrics ∧ c.plainStep = c'.plainStep ∧ c.closureShifts = c'.closureShifts

theorem tview_fields (s t : State) (h : tview s = tview t) :
    s.θ = t.θ ∧ s.optKind = t.optKind ∧ s.lossId = t.lossId ∧ s.nTrain = t.nTrain ∧ s.trainLoss = t.trainLoss ∧
    s.trainMetric = t.trainMetric ∧ s.localEpoch = t.localEpoch ∧ s.maxLocal = t.maxLocal ∧ s.stop = t.stop ∧
    s.trainDraws = t.trainDraws ∧ s.steps = t.steps := by
  simpa [tview] using h

theorem tview_updateBest (s : State) (v : Val) : tview (updateBest s v) = tview s := by
  simp only [updateBest]; split <;> (try split) <;> rfl

theorem tview_maybeUpdateBestTrain (s : State) (v : Val) : tview (maybeUpdateBestTrain s v) = tview s := by
  simp only [maybeUpdateBestTrain]; split
  · exact tview_updateBest s v
  · rfl

theorem metricIds_agree (c c' : Cfg) (h : TrainAgree c c') : metricIds c = metricIds c' := by
  simp [metricIds, h.2.2.1]

theorem tview_trainBatchPlain (c c' : Cfg) (h : TrainAgree c c') (p q : State × Acc) (hv : tview p.1 = tview q.1)
    (ha : p.2 = q.2) :
    tview (trainBatchPlain c p).1 = tview (trainBatchPlain c' q).1 ∧ (trainBatchPlain c p).2 = (trainBatchPlain c' q).2 := by
  obtain ⟨e1, e2, e3, e4, e5, e6, e7, e8, e9, e10, e11⟩ := tview_fields _ _ hv
  simp only [trainBatchPlain, tview, e1, e2, e3, e4, e5, e6, e7, e8, e9, e10, e11, ha, h.1, h.2.1, metricIds_agree c c' h]
  exact ⟨trivial, trivial⟩

theorem closureEvals_agree (c c' : Cfg) (h : TrainAgree c c') (lossId idx : Nat) :
    ∀ (shifts : List Int) (θ : Int) (l : Val) (ms : List Val) (log log' : List Event),
      (closureEvals c lossId idx shifts θ l ms log).1 = (closureEvals c' lossId idx shifts θ l ms log').1 ∧
      (closureEvals c lossId idx shifts θ l ms log).2.1 = (closureEvals c' lossId idx shifts θ l ms log').2.1 ∧
      (closureEvals c lossId idx shifts θ l ms log).2.2.1 = (closureEvals c' lossId idx shifts θ l ms log').2.2.1 := by
  intro shifts
  induction shifts with
  | nil => intro θ l ms log log'; simp [closureEvals]
  | cons sh rest ih =>
    intro θ l ms log log'
    simp only [closureEvals, h.1, h.2.1, metricIds_agree c c' h]
    exact ih _ _ _ _ _

theorem tview_trainBatchClosure (c c' : Cfg) (h : TrainAgree c c') (p q : State × Acc) (hv : tview p.1 = tview q.1)
    (ha : p.2 = q.2) :
    tview (trainBatchClosure c p).1 = tview (trainBatchClosure c' q).1 ∧
    (trainBatchClosure c p).2 = (trainBatchClosure c' q).2 := by
  obtain ⟨e1, e2, e3, e4, e5, e6, e7, e8, e9, e10, e11⟩ := tview_fields _ _ hv
  have hg := closureEvals_agree c c' h q.1.lossId q.1.trainDraws (c'.closureShifts q.1.steps) q.1.θ 0
    ((metricIds c').map (fun _ => 0)) (.draw true q.1.trainDraws :: p.1.log) (.draw true q.1.trainDraws :: q.1.log)
  simp only [trainBatchClosure, tview, e1, e2, e3, e4, e5, e6, e7, e8, e9, e10, e11, ha, h.2.2.2.2,
    metricIds_agree c c' h, hg.1, hg.2.1, hg.2.2]
  exact ⟨trivial, trivial⟩

theorem tview_iterate (f g : State × Acc → State × Acc)
    (hfg : ∀ p q, tview p.1 = tview q.1 → p.2 = q.2 → tview (f p).1 = tview (g q).1 ∧ (f p).2 = (g q).2) :
    ∀ n p q, tview p.1 = tview q.1 → p.2 = q.2 →
      tview (iterate f n p).1 = tview (iterate g n q).1 ∧ (iterate f n p).2 = (iterate g n q).2 := by
  intro n
  induction n with
  | zero => intro p q h1 h2; exact ⟨h1, h2⟩
  | succ n ih => intro p q h1 h2; exact ih _ _ (hfg p q h1 h2).1 (hfg p q h1 h2).2

theorem tview_trainEpoch (c c' : Cfg) (h : TrainAgree c c') (s t : State) (hv : tview s = tview t) :
    tview (trainEpoch c s) = tview (trainEpoch c' t) := by
  obtain ⟨e1, e2, e3, e4, e5, e6, e7, e8, e9, e10, e11⟩ := tview_fields _ _ hv
  by_cases hn : s.nTrain = 0
  · rw [trainEpoch_skip c s hn, trainEpoch_skip c' t (by rw [← e4]; exact hn)]; exact hv
  have hn' : t.nTrain ≠ 0 := by rw [← e4]; exact hn
  have hacc : acc0 c = acc0 c' := by simp [acc0, metricIds_agree c c' h]
  cases hk : s.optKind with
  | plain =>
    have hk' : t.optKind = .plain := by rw [← e2]; exact hk
    obtain ⟨i1, i2⟩ := tview_iterate (trainBatchPlain c) (trainBatchPlain c') (tview_trainBatchPlain c c' h) s.nTrain
      (logZeroGrad s, acc0 c) (logZeroGrad t, acc0 c') hv hacc
    simp only [trainEpoch, hn, hn', hk, hk', if_false]
    rw [← e4]
    generalize iterate (trainBatchPlain c) s.nTrain (logZeroGrad s, acc0 c) = p at *
    generalize iterate (trainBatchPlain c') s.nTrain (logZeroGrad t, acc0 c') = q at *
    obtain ⟨j1, j2, j3, j4, j5, j6, j7, j8, j9, j10, j11⟩ := tview_fields _ _ i1
    obtain ⟨m1, m2, m3, m4, m5, m6, m7, m8, m9, m10, m11⟩ :=
      tview_fields _ _ (tview_maybeUpdateBestTrain (recordTrain p.1 (p.2.epochLoss / (s.nTrain : Int))) (p.2.epochLoss / (s.nTrain : Int)))
    obtain ⟨n1, n2, n3, n4, n5, n6, n7, n8, n9, n10, n11⟩ :=
      tview_fields _ _ (tview_maybeUpdateBestTrain (recordTrain q.1 (q.2.epochLoss / (s.nTrain : Int))) (q.2.epochLoss / (s.nTrain : Int)))
    simp only [tview, recordTrainMetrics, plainOptStep, m1, m2, m3, m4, m5, m6, m7, m8, m9, m10, m11, n1, n2, n3, n4, n5,
      n6, n7, n8, n9, n10, n11]
    simp only [recordTrain, j1, j2, j3, j4, j5, j6, j7, j8, j9, j10, j11, i2, h.2.2.2.1]
  | closure =>
    have hk' : t.optKind = .closure := by rw [← e2]; exact hk
    obtain ⟨i1, i2⟩ := tview_iterate (trainBatchClosure c) (trainBatchClosure c') (tview_trainBatchClosure c c' h)
      s.nTrain (s, acc0 c) (t, acc0 c') hv hacc
    simp only [trainEpoch, hn, hn', hk, hk', if_false]
    rw [← e4]
    generalize iterate (trainBatchClosure c) s.nTrain (s, acc0 c) = p at *
    generalize iterate (trainBatchClosure c') s.nTrain (t, acc0 c') = q at *
    obtain ⟨j1, j2, j3, j4, j5, j6, j7, j8, j9, j10, j11⟩ := tview_fields _ _ i1
    obtain ⟨m1, m2, m3, m4, m5, m6, m7, m8, m9, m10, m11⟩ :=
      tview_fields _ _ (tview_maybeUpdateBestTrain (recordTrain p.1 (p.2.epochLoss / (s.nTrain : Int))) (p.2.epochLoss / (s.nTrain : Int)))
    obtain ⟨n1, n2, n3, n4, n5, n6, n7, n8, n9, n10, n11⟩ :=
      tview_fields _ _ (tview_maybeUpdateBestTrain (recordTrain q.1 (q.2.epochLoss / (s.nTrain : Int))) (q.2.epochLoss / (s.nTrain : Int)))
    simp only [tview, recordTrainMetrics, m1, m2, m3, m4, m5, m6, m7, m8, m9, m10, m11, n1, n2, n3, n4, n5,
      n6, n7, n8, n9, n10, n11]
    simp only [recordTrain, j1, j2, j3, j4, j5, j6, j7, j8, j9, j10, j11, i2]

theorem tview_validEpoch (c : Cfg) (s : State) : tview (validEpoch c s) = tview s := by
  by_cases hn : s.nValid = 0
  · rw [validEpoch_skip c s hn]
  obtain ⟨e1, e2, e3, e4, e5, e6, e7, e8, e9, e10, e11, e12, e13, e14, e15, e16, e17, e18⟩ :=
    core_fields _ _ (core_validEpoch c s hn)
  simp only [core] at e1 e2 e3 e4 e6 e8 e12 e13 e14 e15 e17
  simp only [tview, e1, e2, e3, e4, e6, e8, e12, e13, e14, e15, e17]

theorem tview_applyAction (s t : State) (h : tview s = tview t) (a : Action) :
    tview (applyAction s a) = tview (applyAction t a) := by
  obtain ⟨e1, e2, e3, e4, e5, e6, e7, e8, e9, e10, e11⟩ := tview_fields _ _ h
  cases a <;> simp [applyAction, tview, e1, e2, e3, e4, e5, e6, e7, e8, e9, e10, e11]

theorem tview_runCallbacks (sched) (call : Nat) (s t : State) (h : tview s = tview t) :
    tview (runCallbacks sched call s) = tview (runCallbacks sched call t) := by
  have hl : s.localEpoch = t.localEpoch := (tview_fields _ _ h).2.2.2.2.2.2.1
  simp only [runCallbacks, hl]
  generalize sched call t.localEpoch = acts
  have : ∀ (acts : List Action) (s t : State), tview s = tview t →
      tview (acts.foldl applyAction s) = tview (acts.foldl applyAction t) := by
    intro acts
    induction acts with
    | nil => intro s t h; exact h
    | cons a rest ih => intro s t h; exact ih _ _ (tview_applyAction s t h a)
  have h2 := this acts s t h
  obtain ⟨e1, e2, e3, e4, e5, e6, e7, e8, e9, e10, e11⟩ := tview_fields _ _ h2
  simp only [tview, e1, e2, e3, e4, e5, e6, e7, e8, e9, e10, e11]

theorem tview_epoch (c c' : Cfg) (h : TrainAgree c c') (sched) (call i : Nat) (s t : State) (hv : tview s = tview t) :
    tview (epoch c sched call i s) = tview (epoch c' sched call i t) := by
  unfold epoch
  apply tview_runCallbacks
  rw [tview_validEpoch, tview_validEpoch]
  apply tview_trainEpoch c c' h
  obtain ⟨e1, e2, e3, e4, e5, e6, e7, e8, e9, e10, e11⟩ := tview_fields _ _ hv
  simp only [tview, e1, e2, e3, e4, e5, e6, e8, e9, e10, e11]

theorem tview_fitLoop (c c' : Cfg) (h : TrainAgree c c') (sched) (call : Nat) :
    ∀ k i s t, tview s = tview t → tview (fitLoop c sched call k i s) = tview (fitLoop c' sched call k i t) := by
  intro k
  induction k with
  | zero => intro i s t hv; exact hv
  | succ k ih =>
    intro i s t hv
    have hs : s.stop = t.stop := (tview_fields _ _ hv).2.2.2.2.2.2.2.2.1
    simp only [fitLoop, hs]
    split
    · exact hv
    · exact ih _ _ _ (tview_epoch c c' h sched call i s t hv)

/-- **C04, independence clause.**  Two runs that differ ONLY in how much validation is done (`n_batches_valid`, the
validation batches, the validation losses, hence `lowest_loss`/`best_nets`) go through exactly the same parameters,
training losses, training metrics, optimiser steps and training batches, over any sequence of `fit` calls with the
same callback schedule. -/
theorem params_trajectory_independent_of_validation (c c' : Cfg) (h : TrainAgree c c') (sched) :
    ∀ (ms : List Nat) (call : Nat) (s t : State), tview s = tview t →
      tview (fits c sched call ms s) = tview (fits c' sched call ms t) := by
  intro ms
  induction ms with
  | nil => intro call s t hv; exact hv
  | cons m rest ih =>
    intro call s t hv
    apply ih
    apply tview_fitLoop c c' h
    obtain ⟨e1, e2, e3, e4, e5, e6, e7, e8, e9, e10, e11⟩ := tview_fields _ _ hv
    simp only [tview, e1, e2, e3, e4, e5, e6, e7, e10, e11]

/-- instance: same solver with validation switched off vs. 3 validation batches per epoch -/
example (c : Cfg) (sched) (ms : List Nat) (θ0 : Int) (k : OptKind) (nT : Nat) :
    (fits c sched 0 ms (init θ0 k nT 0 c.nMetrics)).θ = (fits c sched 0 ms (init θ0 k nT 3 c.nMetrics)).θ :=
  (tview_fields _ _ (params_trajectory_independent_of_validation c c
    ⟨fun _ _ _ => rfl, fun _ _ _ => rfl, rfl, rfl, rfl⟩ sched ms 0 (init θ0 k nT 0 c.nMetrics)
    (init θ0 k nT 3 c.nMetrics) rfl)).1

/-! ### routing of arguments to the user's equations -/
open NdeVerif.Routing

/-- **bundle solver**: the user's equations receive the `n` functions, the time coordinate, and then exactly the
bundle parameters named by `eq_param_index`, in that order (parameter `j` is variable number `n + 1 + j`) -/
theorem bundle_selects {α : Type} (n : Nat) (idx : List Nat) (funcs : List α) (t : α) (θs : List α)
    (hf : funcs.length = n) (hidx : ∀ j ∈ idx, j < θs.length) :
    bundleArgs n idx (funcs ++ t :: θs) = some (funcs ++ [t] ++ idx.map (fun j => θs[j]?.getD t)) := by
  simp only [bundleArgs]
  have htake : (funcs ++ t :: θs).take (n + 1) = funcs ++ [t] := by
    subst hf; rw [List.take_length_add_append]; rfl
  have hget : ∀ j, (funcs ++ t :: θs)[n + 1 + j]? = θs[j]? := by
    intro j
    rw [List.getElem?_append_right (by omega)]
    have : n + 1 + j - funcs.length = j + 1 := by omega
    rw [this]; simp
  have hm : (idx.map (fun i => n + 1 + i)).mapM (fun i => (funcs ++ t :: θs)[i]?) =
      some (idx.map (fun j => θs[j]?.getD t)) := by
    induction idx with
    | nil => rfl
    | cons a rest ih =>
      have ha : a < θs.length := hidx a (by simp)
      have := ih (fun j hj => hidx j (by simp [hj]))
      simp only [List.map_cons, List.mapM_cons, hget, this]
      rw [List.getElem?_eq_getElem ha]; rfl
  rw [hm, htake]; rfl

/-- an index outside the sampled bundle parameters is an error, never a silent default -/
theorem bundle_rejects_out_of_range {α : Type} (n : Nat) (vars : List α) (j : Nat) (h : vars.length ≤ n + 1 + j) :
    bundleArgs n [j] vars = none := by
  simp [bundleArgs, List.getElem?_eq_none h]

/-- **spherical solver**: a condition whose `parameterize(output, c₁ … c_k)` takes `k` coordinates is enforced on the
leading `k` coordinates of the batch -/
theorem auto_enforce_truncates {α : Type} (k : Nat) (coords : List α) :
    autoEnforceCoords (k + 1) coords = coords.take k := rfl

theorem setLossFn_dispatch :
    setLossFn .none = .defaultMse ∧ setLossFn .lossObject = .wrappedObject ∧ setLossFn .callable = .user ∧
    setLossFn .other = .typeError ∧
    (∀ s, s.toLower ∈ knownLossNames → setLossFn (.name s) = .named s.toLower) ∧
    (∀ s, s.toLower ∉ knownLossNames → setLossFn (.name s) = .keyError) := by
  refine ⟨rfl, rfl, rfl, rfl, ?_, ?_⟩ <;> intro s h <;> simp [setLossFn, h]

example : bundleArgs 2 [1, 0] ["u", "v", "t", "a", "b", "c"] = some ["u", "v", "t", "b", "a"] := by decide

end NdeVerif.C04
