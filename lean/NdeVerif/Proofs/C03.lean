/-
  C03 — `diff` returns the exact per-sample k-th partial derivative, differentiably; shape guards.
  Theorems about `NdeVerif.DiffLoop` / `NdeVerif.Shapes` (models of `unsafe_diff`, `safe_diff`, `diff`,
  tied to /repo by the correspondence check of ./check C03) on top of `D_sound` / `iterD_sound`.
-/
import NdeVerif.Calc.Lemmas
import NdeVerif.Model.DiffLoop
import Mathlib.Analysis.Calculus.Deriv.Polynomial

namespace NdeVerif.C03
open NdeVerif Ex DiffLoop Shapes

/-! ### independence is preserved by `D` -/

theorem hasVar_sumFin_false (x : Nat) : ∀ n (f : Fin n → Ex),
    (∀ i, (f i).hasVar x = false) → (sumFin n f).hasVar x = false
  | 0, _, _ => by simp [sumFin, hasVar]
  | n+1, f, h => by
    simp only [sumFin, hasVar, h 0, Bool.false_or]
    exact hasVar_sumFin_false x n _ (fun i => h i.succ)

/-- the symbolic derivative of an `x`-free expression is `x`-free
(contrapositive: `hasVar x (D x e) = true → hasVar x e = true`) -/
theorem hasVar_D_false (x : Nat) (e : Ex) (h : e.hasVar x = false) : (e.D x).hasVar x = false := by
  induction e with
  | var i => by_cases hi : i = x <;> simp_all [Ex.D, hasVar]
  | un f a ih => cases f <;> simp_all [Ex.D, hasVar]
  | app f n mi args ih =>
    simp only [Ex.D]
    apply hasVar_sumFin_false
    intro i
    have hall := h
    simp only [hasVar, List.any_eq_false] at h
    have hi : (args i).hasVar x = false := by simpa using h i (List.mem_finRange i)
    have happ : (Ex.app f n (inc mi i) args).hasVar x = false := by
      simpa only [hasVar] using hall
    simp only [hasVar, Bool.or_eq_false_iff]
    exact ⟨by simpa only [hasVar] using happ, ih i hi⟩
  | _ => simp_all [Ex.D, hasVar]

theorem hasVar_of_hasVar_D (x : Nat) (e : Ex) (h : (e.D x).hasVar x = true) : e.hasVar x = true := by
  by_contra hc
  have := hasVar_D_false x e (by simpa using hc)
  simp [this] at h

theorem hasVar_iterD_false (x : Nat) (e : Ex) (h : e.hasVar x = false) :
    ∀ k, (iterD x k e).hasVar x = false
  | 0 => h
  | k+1 => hasVar_D_false x _ (hasVar_iterD_false x e h k)

/-- every derivative of order ≥ 1 of an `x`-free expression evaluates to 0 -/
theorem iterD_eval_zero_of_not_hasVar (I : Interp) (x : Nat) (e : Ex) (h : e.hasVar x = false)
    (k : Nat) (ρ : Nat → ℝ) : (iterD x (k+1) e).eval I ρ = 0 :=
  D_eval_eq_zero_of_not_hasVar I x _ (hasVar_iterD_false x e h k) ρ

theorem iterD_succ' (x : Nat) : ∀ k e, iterD x (k+1) e = iterD x k (e.D x)
  | 0, _ => rfl
  | k+1, e => by
    show (iterD x (k+1) e).D x = (iterD x k (e.D x)).D x
    rw [iterD_succ' x k e]

/-! ### the loop of `unsafe_diff` computes the iterated derivative -/

/-- `n` further iterations of the `for` loop starting from `der` evaluate like `Dⁿ der`, whether or not the
early `None ↦ zeros` exit is taken -/
theorem loop_eq_iterD (I : Interp) (x : Nat) (ρ : Nat → ℝ) :
    ∀ n der, (loop autograd x n der).eval I ρ = (iterD x n der).eval I ρ
  | 0, _ => rfl
  | n+1, der => by
    by_cases h : der.hasVar x = true
    · have : loop autograd x (n+1) der = loop autograd x n (der.D x) := by
        simp [loop, autograd, h]
      rw [this, loop_eq_iterD I x ρ n, iterD_succ']
    · have h' : der.hasVar x = false := by simpa using h
      have : loop autograd x (n+1) der = .nat 0 := by
        simp [loop, autograd, h', zerosLike]
      rw [this, iterD_eval_zero_of_not_hasVar I x der h' n ρ]
      simp [Ex.eval]

/-- **C03, loop clause.**  For every expression, variable, order `k ≥ 1`, interpretation and point the value
returned by the model of `unsafe_diff` (first gradient, `None ↦ zeros`, `range(1, order)` loop with its early
exit) is the value of the `k`-fold symbolic derivative. -/
theorem diffLoop_eq_iterD (I : Interp) (u : Ex) (x : Nat) (ρ : Nat → ℝ) (k : Nat) (hk : 1 ≤ k) :
    (diffLoop u x k).eval I ρ = (iterD x k u).eval I ρ := by
  obtain ⟨n, rfl⟩ : ∃ n, k = n + 1 := ⟨k - 1, by omega⟩
  have hit : iterations ((n + 1 : Nat) : Int) = n := by simp [iterations]
  by_cases h : u.hasVar x = true
  · have : diffLoop u x (n+1) = loop autograd x n (u.D x) := by
      simp only [diffLoop, unsafeDiff, hit]; simp [autograd, h]
    rw [this, loop_eq_iterD, iterD_succ']
  · have h' : u.hasVar x = false := by simpa using h
    have : diffLoop u x (n+1) = .nat 0 := by
      simp [diffLoop, unsafeDiff, autograd, h', zerosLike]
    rw [this, iterD_eval_zero_of_not_hasVar I x u h' n ρ]
    simp [Ex.eval]

/-- when no gradient call returns `None` the model's output is syntactically the iterated derivative
(this is what the symbolic trace of the real loop is compared with) -/
theorem diffLoop_syntactic (u : Ex) (x : Nat) (k : Nat) (hk : 1 ≤ k)
    (h : ∀ j, j < k → (iterD x j u).hasVar x = true) : diffLoop u x k = iterD x k u := by
  obtain ⟨n, rfl⟩ : ∃ n, k = n + 1 := ⟨k - 1, by omega⟩
  have hit : iterations ((n + 1 : Nat) : Int) = n := by simp [iterations]
  have hl : ∀ m der, (∀ j, j < m → (iterD x j der).hasVar x = true) →
      loop autograd x m der = iterD x m der := by
    intro m
    induction m with
    | zero => intro der _; rfl
    | succ m ih =>
      intro der hd
      have h0 : der.hasVar x = true := hd 0 (by omega)
      have : loop autograd x (m+1) der = loop autograd x m (der.D x) := by simp [loop, autograd, h0]
      rw [this, ih, iterD_succ']
      intro j hj
      rw [← iterD_succ']; exact hd (j+1) (by omega)
  have h0 : u.hasVar x = true := h 0 (by omega)
  have : diffLoop u x (n+1) = loop autograd x n (u.D x) := by
    simp only [diffLoop, unsafeDiff, hit]; simp [autograd, h0]
  rw [this, hl, iterD_succ']
  intro j hj
  rw [← iterD_succ']; exact h (j+1) (by omega)

/-- orders `≤ 1` (0 and negative `order` included) all return the first derivative: `range(1, order)` is empty -/
theorem unsafeDiff_order_le_one (g : Grad) (u : Ex) (t : Nat) (order : Int) (h : order ≤ 1) :
    unsafeDiff g u t order = unsafeDiff g u t 1 := by
  have h0 : iterations order = 0 := by simp [iterations]; omega
  have h1 : iterations 1 = 0 := by simp [iterations]
  simp only [unsafeDiff, h0, h1]

theorem total_loop (x : Nat) : ∀ n der, der.total → (loop autograd x n der).total
  | 0, _, h => h
  | n+1, der, h => by
    by_cases hv : der.hasVar x = true
    · have : loop autograd x (n+1) der = loop autograd x n (der.D x) := by simp [loop, autograd, hv]
      rw [this]; exact total_loop x n _ (total_D x der h)
    · have : loop autograd x (n+1) der = .nat 0 := by simp [loop, autograd, hv, zerosLike]
      rw [this]; simp [Ex.total]

theorem total_diffLoop (u : Ex) (x k : Nat) (h : u.total) : (diffLoop u x k).total := by
  by_cases hv : u.hasVar x = true
  · have : diffLoop u x k = loop autograd x (iterations k) (u.D x) := by
      simp [diffLoop, unsafeDiff, autograd, hv]
    rw [this]; exact total_loop x _ _ (total_D x u h)
  · have : diffLoop u x k = .nat 0 := by simp [diffLoop, unsafeDiff, autograd, hv, zerosLike]
    rw [this]; simp [Ex.total]

/-! ### the property -/

/-- **C03, main clause.**  For every total expression `u` (polynomials, `exp/sin/cos/tanh` compositions, smooth
opaque symbols such as networks, any number of coordinate columns), every variable `x`, order `k ≥ 1`, smooth
interpretation and sample point `ρ`: the value `diff(u, x, order=k)` takes in that row is the `k`-th derivative
of `v ↦ u(…, x := v, …)` at `ρ x`, all other coordinates held fixed. -/
theorem diff_is_kth_partial (I : Interp) (hI : Smooth I) (u : Ex) (hu : u.total) (x k : Nat) (hk : 1 ≤ k)
    (ρ : Nat → ℝ) :
    deriv^[k] (fun v => u.eval I (Function.update ρ x v)) (ρ x) = (diffLoop u x k).eval I ρ := by
  rw [diffLoop_eq_iterD I u x ρ k hk, iterD_sound I hI x u hu ρ k]
  simp

/-- **C03, independence clause.**  If `u` does not mention `x` the model returns the zeros tensor for every
order, and the true derivative of every order ≥ 1 is 0 as well. -/
theorem diff_zero_of_independent (u : Ex) (x : Nat) (h : u.hasVar x = false) (order : Int) :
    unsafeDiff autograd u x order = .nat 0 := by
  simp [unsafeDiff, autograd, h, zerosLike]

theorem diff_zero_of_independent_eval (I : Interp) (u : Ex) (x k : Nat) (h : u.hasVar x = false)
    (ρ : Nat → ℝ) : (diffLoop u x k).eval I ρ = 0 := by
  simp [diffLoop, diff_zero_of_independent u x h, Ex.eval]

theorem deriv_zero_of_independent (I : Interp) (u : Ex) (x k : Nat) (hk : 1 ≤ k) (h : u.hasVar x = false)
    (ρ : Nat → ℝ) : deriv^[k] (fun v => u.eval I (Function.update ρ x v)) (ρ x) = 0 := by
  have hc : (fun v => u.eval I (Function.update ρ x v)) = fun _ => u.eval I ρ := by
    funext v; exact eval_congr_of_not_hasVar I x u h ρ v
  obtain ⟨n, rfl⟩ : ∃ n, k = n + 1 := ⟨k - 1, by omega⟩
  rw [hc, Function.iterate_succ_apply]
  have hz : deriv (fun _ : ℝ => u.eval I ρ) = fun _ => (0:ℝ) := by funext v; simp
  rw [hz]
  have : ∀ m, deriv^[m] (fun _ : ℝ => (0:ℝ)) = fun _ => (0:ℝ) := by
    intro m
    induction m with
    | zero => rfl
    | succ m ih =>
      rw [Function.iterate_succ_apply, show deriv (fun _ : ℝ => (0:ℝ)) = fun _ => (0:ℝ) from by funext v; simp, ih]
  rw [this]

/-! ### polynomial degree -/

/-- degree in `x` of the polynomial fragment: sums, products, negations, natural powers of `x`, of constants and
of arbitrary `x`-free sub-expressions (`sin y`, a network of the other columns, …); `none` outside the fragment -/
def polyDeg (x : Nat) : Ex → Option Nat
  | .var i => some (if i = x then 1 else 0)
  | .nat _ => some 0
  | .rat _ _ => some 0
  | .pi => some 0
  | .add a b => (polyDeg x a).bind fun m => (polyDeg x b).map fun n => max m n
  | .mul a b => (polyDeg x a).bind fun m => (polyDeg x b).map fun n => m + n
  | .neg a => polyDeg x a
  | .pow a n => (polyDeg x a).map fun m => n * m
  | .inv a => if (Ex.inv a).hasVar x then none else some 0
  | .un f a => if (Ex.un f a).hasVar x then none else some 0
  | .atan2 a b => if (Ex.atan2 a b).hasVar x then none else some 0
  | .app f n mi args => if (Ex.app f n mi args).hasVar x then none else some 0

/-- an expression of degree `d` in `x` is, as a function of `x` (other coordinates fixed), a real polynomial of
degree at most `d` -/
theorem poly_repr (I : Interp) (x : Nat) (ρ : Nat → ℝ) (e : Ex) : ∀ d, polyDeg x e = some d →
    ∃ p : Polynomial ℝ, p.natDegree ≤ d ∧ ∀ v, e.eval I (Function.update ρ x v) = p.eval v := by
  have atom : ∀ e : Ex, e.hasVar x = false →
      ∃ p : Polynomial ℝ, p.natDegree ≤ 0 ∧ ∀ v, e.eval I (Function.update ρ x v) = p.eval v := by
    intro e h
    exact ⟨Polynomial.C (e.eval I ρ), by simp, fun v => by simp [eval_congr_of_not_hasVar I x e h ρ v]⟩
  induction e with
  | var i =>
    intro d hd
    by_cases hi : i = x
    · subst hi
      refine ⟨Polynomial.X, ?_, fun v => by simp [Ex.eval]⟩
      simp [polyDeg] at hd; subst hd; simp
    · refine ⟨Polynomial.C (ρ i), by simp, fun v => by simp [Ex.eval, Function.update, hi]⟩
  | nat n => intro d _; exact ⟨Polynomial.C (n:ℝ), by simp, fun v => by simp [Ex.eval]⟩
  | rat p q => intro d _; exact ⟨Polynomial.C ((p:ℝ)/(q:ℝ)), by simp, fun v => by simp [Ex.eval]⟩
  | pi => intro d _; exact ⟨Polynomial.C Real.pi, by simp, fun v => by simp [Ex.eval]⟩
  | add a b iha ihb =>
    intro d hd
    simp only [polyDeg, Option.bind_eq_some_iff, Option.map_eq_some_iff] at hd
    obtain ⟨m, hm, n, hn, rfl⟩ := hd
    obtain ⟨p, hp, hpe⟩ := iha m hm
    obtain ⟨q, hq, hqe⟩ := ihb n hn
    refine ⟨p + q, ?_, fun v => by simp [Ex.eval, hpe, hqe]⟩
    exact (Polynomial.natDegree_add_le p q).trans (max_le_max hp hq)
  | mul a b iha ihb =>
    intro d hd
    simp only [polyDeg, Option.bind_eq_some_iff, Option.map_eq_some_iff] at hd
    obtain ⟨m, hm, n, hn, rfl⟩ := hd
    obtain ⟨p, hp, hpe⟩ := iha m hm
    obtain ⟨q, hq, hqe⟩ := ihb n hn
    refine ⟨p * q, ?_, fun v => by simp [Ex.eval, hpe, hqe]⟩
    exact (Polynomial.natDegree_mul_le).trans (Nat.add_le_add hp hq)
  | neg a iha =>
    intro d hd
    obtain ⟨p, hp, hpe⟩ := iha d (by simpa [polyDeg] using hd)
    exact ⟨-p, by simpa using hp, fun v => by simp [Ex.eval, hpe]⟩
  | pow a n iha =>
    intro d hd
    simp only [polyDeg, Option.map_eq_some_iff] at hd
    obtain ⟨m, hm, rfl⟩ := hd
    obtain ⟨p, hp, hpe⟩ := iha m hm
    refine ⟨p ^ n, ?_, fun v => by simp [Ex.eval, hpe]⟩
    exact (Polynomial.natDegree_pow_le).trans (Nat.mul_le_mul_left n hp)
  | inv a _ =>
    intro d hd
    by_cases h : (Ex.inv a).hasVar x = true
    · simp [polyDeg, h] at hd
    · simp [polyDeg, h] at hd; subst hd; exact atom _ (by simpa using h)
  | un f a _ =>
    intro d hd
    by_cases h : (Ex.un f a).hasVar x = true
    · simp [polyDeg, h] at hd
    · simp [polyDeg, h] at hd; subst hd; exact atom _ (by simpa using h)
  | atan2 a b _ _ =>
    intro d hd
    by_cases h : (Ex.atan2 a b).hasVar x = true
    · simp [polyDeg, h] at hd
    · simp [polyDeg, h] at hd; subst hd; exact atom _ (by simpa using h)
  | app f n mi args _ =>
    intro d hd
    by_cases h : (Ex.app f n mi args).hasVar x = true
    · simp [polyDeg, h] at hd
    · simp [polyDeg, h] at hd; subst hd; exact atom _ (by simpa using h)

theorem iterate_deriv_polynomial (p : Polynomial ℝ) : ∀ k,
    deriv^[k] (fun v => p.eval v) = fun v => (Polynomial.derivative^[k] p).eval v
  | 0 => rfl
  | k+1 => by
    rw [Function.iterate_succ_apply', iterate_deriv_polynomial p k, Function.iterate_succ_apply']
    funext v
    exact Polynomial.deriv _

/-- **C03, degree clause.**  For the whole polynomial fragment (not only monomials): if `u` is total and has
degree `d` in `x`, then `diff(u, x, order=k)` is 0 in every row for every order `k > d`. -/
theorem diff_zero_above_degree (I : Interp) (hI : Smooth I) (u : Ex) (hu : u.total) (x d k : Nat)
    (hd : polyDeg x u = some d) (hk : d < k) (ρ : Nat → ℝ) : (diffLoop u x k).eval I ρ = 0 := by
  rw [← diff_is_kth_partial I hI u hu x k (by omega) ρ]
  obtain ⟨p, hp, hpe⟩ := poly_repr I x ρ u d hd
  have hf : (fun v => u.eval I (Function.update ρ x v)) = fun v => p.eval v := funext hpe
  rw [hf, iterate_deriv_polynomial p k, Polynomial.iterate_derivative_eq_zero (by omega)]
  simp

/-! ### mixed nestings -/

/-- `D y (D x e)` is just another expression, so `D_sound` applies again: the second-order mixed partial -/
theorem mixed_partial_sound (I : Interp) (hI : Smooth I) (e : Ex) (he : e.total) (x y : Nat) (ρ : Nat → ℝ) :
    HasDerivAt (fun w => deriv (fun v => e.eval I (Function.update (Function.update ρ y w) x v))
        ((Function.update ρ y w) x))
      (((e.D x).D y).eval I ρ) (ρ y) := by
  have h1 : ∀ σ : Nat → ℝ, deriv (fun v => e.eval I (Function.update σ x v)) (σ x) = (e.D x).eval I σ :=
    fun σ => (D_sound I hI x e σ (ok_of_total I σ e he)).deriv
  simp only [h1]
  exact D_sound I hI y (e.D x) ρ (ok_of_total I ρ _ (total_D x e he))

/-- **C03, nesting clause.**  `diff(diff(u, x, order=j), y, order=k)` is, row by row, the `k`-th partial in `y`
of the `j`-th partial in `x` (any `x`, `y`, equal or not; the inner `None ↦ zeros` result included). -/
theorem nested_diff_sound (I : Interp) (hI : Smooth I) (u : Ex) (hu : u.total) (x y j k : Nat)
    (hj : 1 ≤ j) (hk : 1 ≤ k) (ρ : Nat → ℝ) :
    (diffLoop (diffLoop u x j) y k).eval I ρ =
      deriv^[k] (fun w => deriv^[j] (fun v => u.eval I (Function.update (Function.update ρ y w) x v))
        ((Function.update ρ y w) x)) (ρ y) := by
  have hin : (fun w => deriv^[j] (fun v => u.eval I (Function.update (Function.update ρ y w) x v))
      ((Function.update ρ y w) x)) = fun w => (diffLoop u x j).eval I (Function.update ρ y w) := by
    funext w; exact diff_is_kth_partial I hI u hu x j hj _
  rw [hin]
  exact (diff_is_kth_partial I hI _ (total_diffLoop u x j hu) y k hk ρ).symm

/-! ### any semantically correct gradient oracle gives the same result -/

/-- an oracle is admissible if its answers are right as functions: `some d` with `d` equal to the derivative at
every point, `none` only when the derivative vanishes identically.  Real autograd's reachability test is finer
than `hasVar` (e.g. `d/dx (x*y)` is disconnected from `x`); it is still admissible. -/
def Admissible (I : Interp) (g : Grad) (x : Nat) : Prop :=
  ∀ e : Ex, e.total →
    match g e x with
    | some d => d.total ∧ ∀ ρ, d.eval I ρ = (e.D x).eval I ρ
    | none => ∀ ρ, (e.D x).eval I ρ = 0

theorem autograd_admissible (I : Interp) (x : Nat) : Admissible I autograd x := by
  intro e he
  by_cases h : e.hasVar x = true
  · have hs : autograd e x = some (e.D x) := by simp [autograd, h]
    rw [hs]; exact ⟨total_D x e he, fun _ => rfl⟩
  · have h' : e.hasVar x = false := by simpa using h
    have hs : autograd e x = none := by simp [autograd, h']
    rw [hs]; exact fun ρ => D_eval_eq_zero_of_not_hasVar I x e h' ρ

/-- two total expressions that agree everywhere have derivatives that agree everywhere -/
theorem D_congr (I : Interp) (hI : Smooth I) (x : Nat) (a b : Ex) (ha : a.total) (hb : b.total)
    (h : ∀ ρ, a.eval I ρ = b.eval I ρ) (ρ : Nat → ℝ) : (a.D x).eval I ρ = (b.D x).eval I ρ := by
  have h1 := (D_sound I hI x a ρ (ok_of_total I ρ a ha)).deriv
  have h2 := (D_sound I hI x b ρ (ok_of_total I ρ b hb)).deriv
  rw [← h1, ← h2]
  congr 1
  funext v
  exact h _

theorem iterD_congr (I : Interp) (hI : Smooth I) (x : Nat) (a b : Ex) (ha : a.total) (hb : b.total)
    (h : ∀ ρ, a.eval I ρ = b.eval I ρ) : ∀ k ρ, (iterD x k a).eval I ρ = (iterD x k b).eval I ρ
  | 0, ρ => h ρ
  | k+1, ρ => D_congr I hI x _ _ (total_iterD x k a ha) (total_iterD x k b hb)
      (iterD_congr I hI x a b ha hb h k) ρ

theorem loop_admissible (I : Interp) (hI : Smooth I) (g : Grad) (x : Nat) (hg : Admissible I g x) :
    ∀ n der, der.total → ∀ ρ, (loop g x n der).eval I ρ = (iterD x n der).eval I ρ
  | 0, _, _, _ => rfl
  | n+1, der, hder, ρ => by
    have ha := hg der hder
    cases hgd : g der x with
    | none =>
      rw [hgd] at ha
      have : loop g x (n+1) der = .nat 0 := by simp [loop, hgd, zerosLike]
      rw [this, iterD_succ']
      have hz := iterD_congr I hI x (der.D x) (.nat 0) (total_D x der hder) (by simp [Ex.total])
        (fun σ => by simpa [Ex.eval] using ha σ) n ρ
      rw [hz]
      cases n with
      | zero => rfl
      | succ n => rw [iterD_eval_zero_of_not_hasVar I x (.nat 0) (by simp [hasVar]) n ρ]; simp [Ex.eval]
    | some d =>
      rw [hgd] at ha
      have : loop g x (n+1) der = loop g x n d := by simp [loop, hgd]
      rw [this, loop_admissible I hI g x hg n d ha.1 ρ, iterD_succ']
      exact iterD_congr I hI x d (der.D x) ha.1 (total_D x der hder) ha.2 n ρ

/-- **C03, oracle-independence.**  With *any* admissible gradient oracle (in particular one whose `None` answers
follow graph reachability rather than syntactic occurrence) the loop returns the `k`-th partial derivative. -/
theorem diffLoop_sound_of_admissible (I : Interp) (hI : Smooth I) (g : Grad) (x : Nat) (hg : Admissible I g x)
    (u : Ex) (hu : u.total) (k : Nat) (hk : 1 ≤ k) (ρ : Nat → ℝ) :
    (unsafeDiff g u x (k : Int)).eval I ρ =
      deriv^[k] (fun v => u.eval I (Function.update ρ x v)) (ρ x) := by
  obtain ⟨n, rfl⟩ : ∃ n, k = n + 1 := ⟨k - 1, by omega⟩
  have hit : iterations ((n + 1 : Nat) : Int) = n := by simp [iterations]
  rw [iterD_sound I hI x u hu ρ (n+1)]
  simp only [Function.update_eq_self]
  have ha := hg u hu
  cases hgu : g u x with
  | none =>
    rw [hgu] at ha
    have : unsafeDiff g u x ((n + 1 : Nat) : Int) = .nat 0 := by simp [unsafeDiff, hgu, zerosLike]
    rw [this, iterD_succ']
    have hz := iterD_congr I hI x (u.D x) (.nat 0) (total_D x u hu) (by simp [Ex.total])
      (fun σ => by simpa [Ex.eval] using ha σ) n ρ
    rw [hz]
    cases n with
    | zero => rfl
    | succ n => rw [iterD_eval_zero_of_not_hasVar I x (.nat 0) (by simp [hasVar]) n ρ]; simp [Ex.eval]
  | some d =>
    rw [hgu] at ha
    have : unsafeDiff g u x ((n + 1 : Nat) : Int) = loop g x n d := by simp only [unsafeDiff, hgu, hit]
    rw [this, loop_admissible I hI g x hg n d ha.1 ρ, iterD_succ']
    exact iterD_congr I hI x d (u.D x) ha.1 (total_D x u hu) ha.2 n ρ

/-! ### shape guards and dispatch -/

/-- **C03, guard clause.**  `safe_diff` passes its guards exactly on pairs of equal `(n, 1)` shapes. -/
theorem guard_accepts_iff (u t : Shape) : accepts u t = true ↔ ∃ n, u = [n, 1] ∧ t = [n, 1] := by
  constructor
  · intro h
    rcases u with _ | ⟨a, _ | ⟨b, _ | ⟨c, us⟩⟩⟩ <;> rcases t with _ | ⟨a', _ | ⟨b', _ | ⟨c', ts⟩⟩⟩ <;>
      simp [accepts, safeDiffGuard] at h
    by_cases hb : b = 1 <;> by_cases hb' : b' = 1 <;> by_cases ha : a = a' <;> simp_all
  · rintro ⟨n, rfl, rfl⟩
    simp [accepts, safeDiffGuard]

/-- the second `ValueError` is raised exactly on two columns of different lengths -/
theorem guard_mismatch_iff (u t : Shape) :
    safeDiffGuard u t = .mismatch ↔ ∃ n m, n ≠ m ∧ u = [n, 1] ∧ t = [m, 1] := by
  constructor
  · intro h
    rcases u with _ | ⟨a, _ | ⟨b, _ | ⟨c, us⟩⟩⟩ <;> rcases t with _ | ⟨a', _ | ⟨b', _ | ⟨c', ts⟩⟩⟩ <;>
      simp [safeDiffGuard] at h
    by_cases hb : b = 1 <;> by_cases hb' : b' = 1 <;> by_cases ha : a = a' <;> simp_all
  · rintro ⟨n, m, hnm, rfl, rfl⟩
    simp [safeDiffGuard, hnm]

/-- `safe_diff` either raises (guards) or returns exactly what `unsafe_diff` returns -/
theorem safeDiff_spec (g : Grad) (su st : Shape) (u : Ex) (t : Nat) (order : Int) :
    (accepts su st = true ∧ safeDiff g su st u t order = .returned (unsafeDiff g u t order)) ∨
    (accepts su st = false ∧ safeDiff g su st u t order = .raised (safeDiffGuard su st)) := by
  unfold safeDiff accepts
  cases h : safeDiffGuard su st <;> simp

/-- **C03, dispatch clause.**  `diff(..., shape_check=True)` is `safe_diff`, `shape_check=False` is `unsafe_diff`
(no guard at all) -/
theorem diff_dispatch (g : Grad) (su st : Shape) (u : Ex) (t : Nat) (order : Int) :
    Shapes.diff g su st u t order true = safeDiff g su st u t order ∧
    Shapes.diff g su st u t order false = .returned (unsafeDiff g u t order) := by
  simp [Shapes.diff]

/-- the default entry point rejects every pair that is not two equal `(n,1)` shapes and otherwise returns the
`k`-th partial derivative -/
theorem diff_checked_rejects (g : Grad) (su st : Shape) (u : Ex) (t : Nat) (order : Int)
    (h : ¬ ∃ n, su = [n, 1] ∧ st = [n, 1]) :
    ∃ gd, gd ≠ Guard.pass ∧ Shapes.diff g su st u t order true = .raised gd := by
  have hacc : accepts su st = false := by
    rw [← Bool.not_eq_true, guard_accepts_iff]; exact h
  rcases safeDiff_spec g su st u t order with ⟨h1, _⟩ | ⟨_, h2⟩
  · rw [h1] at hacc; cases hacc
  · refine ⟨safeDiffGuard su st, ?_, by simpa [Shapes.diff] using h2⟩
    intro hp; simp [accepts, hp] at hacc

/-! ### non-vacuity: the hypotheses are satisfiable by concrete non-trivial instances -/

/-- `N(x,y)·x + tanh(y·x)` with an opaque (network) symbol `N` -/
def exU : Ex := .add (.mul (.app 0 2 ![0, 0] ![.var 0, .var 1]) (.var 0)) (.un .tanh (.mul (.var 1) (.var 0)))

theorem exU_total : exU.total := by
  simp only [exU, Ex.total, and_true]
  intro i; fin_cases i <;> simp [Ex.total]

example (ρ : Nat → ℝ) : deriv^[3] (fun v => exU.eval expInterp (Function.update ρ 0 v)) (ρ 0) =
    (diffLoop exU 0 3).eval expInterp ρ :=
  diff_is_kth_partial expInterp expInterp_smooth exU exU_total 0 3 (by omega) ρ

example (ρ : Nat → ℝ) : (diffLoop (diffLoop exU 0 2) 1 1).eval expInterp ρ =
    deriv^[1] (fun w => deriv^[2] (fun v => exU.eval expInterp (Function.update (Function.update ρ 1 w) 0 v))
      ((Function.update ρ 1 w) 0)) (ρ 1) :=
  nested_diff_sound expInterp expInterp_smooth exU exU_total 0 1 2 1 (by omega) (by omega) ρ

/-- `3·x²·y + sin(y)·x − 5`: degree 2 in `x` (variable 0), degree 1 in `y` only through a non-polynomial atom -/
def exP : Ex := .add (.add (.mul (.mul (.nat 3) (.pow (.var 0) 2)) (.var 1)) (.mul (.un .sin (.var 1)) (.var 0)))
  (.neg (.nat 5))

theorem exP_total : exP.total := by simp [exP, Ex.total]
theorem exP_deg : polyDeg 0 exP = some 2 := by simp [exP, polyDeg, hasVar]
example : polyDeg 1 exP = none := by simp [exP, polyDeg, hasVar]

example (ρ : Nat → ℝ) : (diffLoop exP 0 3).eval expInterp ρ = 0 :=
  diff_zero_above_degree expInterp expInterp_smooth exP exP_total 0 2 3 exP_deg (by omega) ρ

/-- the early exit of the loop is really taken: `u = x` has `D x u = 1`, on which the second gradient is `None` -/
example : diffLoop (.var 0) 0 1 = .nat 1 ∧ diffLoop (.var 0) 0 2 = .nat 0 ∧
    noneStep autograd (.var 0) 0 2 = 2 ∧ noneStep autograd (.var 1) 0 2 = 1 := by
  simp [diffLoop, unsafeDiff, noneStep, loopNoneStep, loop, autograd, hasVar, Ex.D, iterations, zerosLike]

/-- order 0 (and negative orders) return the first derivative, not `u` -/
example : unsafeDiff autograd (.pow (.var 0) 2) 0 0 = unsafeDiff autograd (.pow (.var 0) 2) 0 1 :=
  unsafeDiff_order_le_one _ _ _ _ (by omega)

example : accepts [5, 1] [5, 1] = true ∧ accepts [5, 1] [4, 1] = false ∧ accepts [5] [5] = false ∧
    accepts [5, 2] [5, 2] = false ∧ accepts [5, 1, 1] [5, 1, 1] = false ∧ accepts [0, 1] [0, 1] = true ∧
    safeDiffGuard [5, 1] [4, 1] = .mismatch ∧ safeDiffGuard [5] [5, 1] = .notColumn := by decide

end NdeVerif.C03
