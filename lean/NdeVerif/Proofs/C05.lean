/-
  C05 — best-model tracking: `lowest_loss` is the running minimum of the tracked loss history and `best_nets` is a
  frozen copy of the networks at the earliest epoch attaining it.  Theorems about `NdeVerif.Solver` (tied to the code
  by the correspondence check of ./check C05), for every history: any number of epochs and fit() calls, any loss
  values, callbacks that stop / change the batch count / swap the optimiser kind or the loss function.
-/
import NdeVerif.Proofs.SolverLemmas

namespace NdeVerif.C05
open NdeVerif.Solver

/-- the loss history that best-tracking follows: validation losses, or training losses when validation is disabled -/
def tracked (s : State) : List Val := if s.nValid = 0 then s.trainLoss else s.validLoss

/-- Specification.  `tr` = tracked history, `cand[i]` = the networks when `tr[i]` was computed.
`lowest = none` iff nothing was recorded yet; otherwise `lowest = some m` where `m` is a lower bound of the history,
attained at an index `i` before which every entry is strictly larger (earliest on ties), and `best` is the
snapshot taken at that index. -/
def BestSpec (tr : List Val) (cand : List Int) (lowest : Option Val) (best : Option Int) : Prop :=
  cand.length = tr.length ∧
  match lowest with
  | none => tr = [] ∧ best = none
  | some m => (∀ v ∈ tr, m ≤ v) ∧
      ∃ i, i < tr.length ∧ tr[i]? = some m ∧ (∀ j w, j < i → tr[j]? = some w → m < w) ∧ best = cand[i]?

def BestInv (s : State) : Prop := BestSpec (tracked s) s.cand s.lowest s.best

theorem bestSpec_push (tr : List Val) (cand : List Int) (lo : Option Val) (be : Option Int) (v : Val) (θ : Int)
    (h : BestSpec tr cand lo be) :
    BestSpec (tr ++ [v]) (cand ++ [θ]) (bestStep lo be v θ).1 (bestStep lo be v θ).2 := by
  obtain ⟨hlen, hs⟩ := h
  refine ⟨by simp [hlen], ?_⟩
  cases lo with
  | none =>
    obtain ⟨htr, _⟩ := hs
    subst htr
    have hc : cand = [] := List.length_eq_zero_iff.mp (by simpa using hlen)
    subst hc
    simp only [bestStep]
    refine ⟨by simp, 0, by simp, by simp, by intro j w hj; omega, by simp⟩
  | some m =>
    obtain ⟨hlb, i, hi, hti, hearly, hbest⟩ := hs
    by_cases hv : v < m
    · simp only [bestStep, hv, if_true]
      refine ⟨?_, tr.length, by simp, by simp, ?_, by simp [hlen]⟩
      · intro x hx
        rcases List.mem_append.mp hx with hx | hx
        · exact Int.le_trans (Int.le_of_lt hv) (hlb x hx)
        · simp at hx; subst hx; exact Int.le_refl _
      · intro j w hj hw
        rw [List.getElem?_append_left hj] at hw
        exact Int.lt_of_lt_of_le hv (hlb w (List.mem_of_getElem? hw))
    · simp only [bestStep, hv, if_false]
      have hi' : i < (tr ++ [v]).length := by simp only [List.length_append, List.length_cons, List.length_nil]; omega
      have hic : i < cand.length := by omega
      refine ⟨?_, i, hi', by rw [List.getElem?_append_left hi]; exact hti, ?_, ?_⟩
      · intro x hx
        rcases List.mem_append.mp hx with hx | hx
        · exact hlb x hx
        · simp at hx; subst hx; exact Int.not_lt.mp hv
      · intro j w hj hw
        have hj' : j < tr.length := by omega
        rw [List.getElem?_append_left hj'] at hw
        exact hearly j w hj hw
      · rw [List.getElem?_append_left hic]; exact hbest

/-! ### the invariant is preserved by every operation -/

theorem bestInv_trainEpoch (c : Cfg) (s : State) (h : BestInv s) : BestInv (trainEpoch c s) := by
  by_cases hn : s.nTrain = 0
  · rw [trainEpoch_skip c s hn]; exact h
  cases hk : s.optKind with
  | plain =>
    obtain ⟨e1, e2, e3, e4, e5, e6, e7, e8, e9, e10, e11, e12, e13, e14, e15, e16, e17, e18⟩ :=
      core_fields _ _ (core_trainEpoch_plain c s hn hk)
    simp only [core] at e5 e6 e7 e10 e11 e18
    unfold BestInv tracked at h ⊢
    rw [e5, e6, e7, e10, e11, e18]
    by_cases hv : s.nValid = 0
    · simp only [hv, if_true, trainBest] at h ⊢
      exact bestSpec_push _ _ _ _ _ _ h
    · simp only [hv, if_false, trainBest] at h ⊢
      exact h
  | closure =>
    obtain ⟨v, ms, hc⟩ := core_trainEpoch_closure c s hn hk
    obtain ⟨e1, e2, e3, e4, e5, e6, e7, e8, e9, e10, e11, e12, e13, e14, e15, e16, e17, e18⟩ := core_fields _ _ hc
    simp only [core] at e5 e6 e7 e10 e11 e18
    unfold BestInv tracked at h ⊢
    rw [e5, e6, e7, e10, e11, e18]
    by_cases hv : s.nValid = 0
    · simp only [hv, if_true, trainBest] at h ⊢
      exact bestSpec_push _ _ _ _ _ _ h
    · simp only [hv, if_false, trainBest] at h ⊢
      exact h

theorem bestInv_validEpoch (c : Cfg) (s : State) (h : BestInv s) : BestInv (validEpoch c s) := by
  by_cases hn : s.nValid = 0
  · rw [validEpoch_skip c s hn]; exact h
  obtain ⟨e1, e2, e3, e4, e5, e6, e7, e8, e9, e10, e11, e12, e13, e14, e15, e16, e17, e18⟩ :=
    core_fields _ _ (core_validEpoch c s hn)
  simp only [core] at e5 e6 e7 e10 e11 e18
  unfold BestInv tracked at h ⊢
  rw [e5, e6, e7, e10, e11, e18]
  simp only [hn, if_false] at h ⊢
  exact bestSpec_push _ _ _ _ _ _ h

theorem bestInv_of_frame (s t : State) (h : BestInv s) (h1 : t.nValid = s.nValid) (h2 : t.trainLoss = s.trainLoss)
    (h3 : t.validLoss = s.validLoss) (h4 : t.lowest = s.lowest) (h5 : t.best = s.best) (h6 : t.cand = s.cand) :
    BestInv t := by
  unfold BestInv tracked at h ⊢
  rw [h1, h2, h3, h4, h5, h6]; exact h

theorem bestInv_epoch (c : Cfg) (sched) (call i : Nat) (s : State) (h : BestInv s) :
    BestInv (epoch c sched call i s) := by
  unfold epoch
  have h0 : BestInv { s with localEpoch := i + 1 } := bestInv_of_frame s _ h rfl rfl rfl rfl rfl rfl
  have h1 := bestInv_validEpoch c _ (bestInv_trainEpoch c _ h0)
  obtain ⟨_, f2, f3, f4, _, _, f7, f8, _, _, _, _, _, f14⟩ := runCallbacks_frame sched call
    (validEpoch c (trainEpoch c { s with localEpoch := i + 1 }))
  exact bestInv_of_frame _ _ h1 f2 f3 f4 f7 f8 f14

theorem bestInv_fitLoop (c : Cfg) (sched) (call : Nat) :
    ∀ k i s, BestInv s → BestInv (fitLoop c sched call k i s) := by
  intro k
  induction k with
  | zero => intro i s h; exact h
  | succ k ih =>
    intro i s h
    simp only [fitLoop]
    split
    · exact h
    · exact ih _ _ (bestInv_epoch c sched call i s h)

theorem bestInv_fit (c : Cfg) (sched) (call m : Nat) (s : State) (h : BestInv s) : BestInv (fit c sched call m s) :=
  bestInv_fitLoop c sched call m 0 _ (bestInv_of_frame s _ h rfl rfl rfl rfl rfl rfl)

theorem bestInv_init (θ0 : Int) (opt : OptKind) (nT nV nM : Nat) : BestInv (init θ0 opt nT nV nM) := by
  unfold BestInv tracked BestSpec
  by_cases h : nV = 0 <;> simp [init, h]

/-- **C05, main theorem.**  After ANY sequence of `fit` calls (any epoch counts, any oracles for losses and optimiser
steps, any callback schedule of stop / batch-count / optimiser / loss-function changes), the lowest loss is the minimum
of the tracked history and the best networks are the snapshot taken at the earliest epoch attaining it. -/
theorem best_tracking (c : Cfg) (sched : Nat → Nat → List Action) :
    ∀ (ms : List Nat) (call : Nat) (s : State), BestInv s → BestInv (fits c sched call ms s) := by
  intro ms
  induction ms with
  | nil => intro call s h; exact h
  | cons m rest ih => intro call s h; exact ih _ _ (bestInv_fit c sched call m s h)

theorem best_tracking_from_init (c : Cfg) (sched) (ms : List Nat) (θ0 : Int) (opt : OptKind) (nT nV : Nat) :
    BestInv (fits c sched 0 ms (init θ0 opt nT nV c.nMetrics)) :=
  best_tracking c sched ms 0 _ (bestInv_init _ _ _ _ _)

/-! ### frozen best; reproducibility -/

/-- `_update_best` replaces the stored networks only when the current loss is strictly below the stored lowest loss
(or nothing is stored yet); otherwise both are untouched -/
theorem bestStep_frozen (lo : Option Val) (be : Option Int) (v : Val) (θ : Int) (l : Val) (h : lo = some l)
    (hv : ¬ v < l) : bestStep lo be v θ = (lo, be) := by
  subst h; simp [bestStep, hv]

theorem bestStep_improves (lo : Option Val) (be : Option Int) (v : Val) (θ : Int) (l : Val) (h : lo = some l)
    (hv : v < l) : bestStep lo be v θ = (some v, some θ) := by
  subst h; simp [bestStep, hv]

/-- a validation epoch: the stored best changes only on a strictly lower validation loss, and then it is a copy of the
current parameters, which are exactly the parameters every batch loss of this epoch was computed with; the recorded
loss is the mean of those batch losses — so re-evaluating with the best networks on this epoch's batches reproduces it -/
theorem valid_epoch_best (c : Cfg) (s : State) (hn : s.nValid ≠ 0) :
    let v := meanLoss c s.lossId s.θ false s.validDraws s.nValid
    let s' := validEpoch c s
    s'.validLoss = s.validLoss ++ [v] ∧ s'.θ = s.θ ∧
    (∀ l, s.lowest = some l → ¬ v < l → s'.lowest = s.lowest ∧ s'.best = s.best) ∧
    (∀ l, s.lowest = some l → v < l → s'.lowest = some v ∧ s'.best = some s.θ) ∧
    (s.lowest = none → s'.lowest = some v ∧ s'.best = some s.θ) := by
  intro v s'
  obtain ⟨e1, e2, e3, e4, e5, e6, e7, e8, e9, e10, e11, e12, e13, e14, e15, e16, e17, e18⟩ :=
    core_fields _ _ (core_validEpoch c s hn)
  simp only [core] at e1 e7 e10 e11
  refine ⟨e7, e1, ?_, ?_, ?_⟩
  · intro l hl hv; rw [e10, e11, bestStep_frozen _ _ _ _ l hl hv]; exact ⟨rfl, rfl⟩
  · intro l hl hv; rw [e10, e11, bestStep_improves _ _ _ _ l hl hv]; exact ⟨rfl, rfl⟩
  · intro hl; rw [e10, e11, hl]; exact ⟨rfl, rfl⟩

/-- a training epoch with a plain (non-closure) optimiser and validation disabled: the snapshot is taken BEFORE the
optimiser step, i.e. it holds the parameters the recorded training loss was computed with -/
theorem train_epoch_plain_best (c : Cfg) (s : State) (hn : s.nTrain ≠ 0) (hk : s.optKind = .plain) (hv0 : s.nValid = 0) :
    let v := meanLoss c s.lossId s.θ true s.trainDraws s.nTrain
    let s' := trainEpoch c s
    s'.trainLoss = s.trainLoss ++ [v] ∧
    (∀ l, s.lowest = some l → ¬ v < l → s'.lowest = s.lowest ∧ s'.best = s.best) ∧
    (∀ l, s.lowest = some l → v < l → s'.lowest = some v ∧ s'.best = some s.θ) ∧
    (s.lowest = none → s'.lowest = some v ∧ s'.best = some s.θ) := by
  intro v s'
  obtain ⟨e1, e2, e3, e4, e5, e6, e7, e8, e9, e10, e11, e12, e13, e14, e15, e16, e17, e18⟩ :=
    core_fields _ _ (core_trainEpoch_plain c s hn hk)
  simp only [core, trainBest, hv0, if_true] at e6 e10 e11
  refine ⟨e6, ?_, ?_, ?_⟩
  · intro l hl hv; rw [e10, e11, bestStep_frozen _ _ _ _ l hl hv]; exact ⟨rfl, rfl⟩
  · intro l hl hv; rw [e10, e11, bestStep_improves _ _ _ _ l hl hv]; exact ⟨rfl, rfl⟩
  · intro hl; rw [e10, e11, hl]; exact ⟨rfl, rfl⟩

/-- with validation enabled a training epoch never touches the stored best -/
theorem train_epoch_keeps_best (c : Cfg) (s : State) (hv : s.nValid ≠ 0) :
    (trainEpoch c s).lowest = s.lowest ∧ (trainEpoch c s).best = s.best := by
  by_cases hn : s.nTrain = 0
  · rw [trainEpoch_skip c s hn]; exact ⟨rfl, rfl⟩
  cases hk : s.optKind with
  | plain =>
    obtain ⟨e1, e2, e3, e4, e5, e6, e7, e8, e9, e10, e11, _⟩ := core_fields _ _ (core_trainEpoch_plain c s hn hk)
    simp only [core, trainBest, hv, if_false] at e10 e11
    exact ⟨e10, e11⟩
  | closure =>
    obtain ⟨v, ms, hc⟩ := core_trainEpoch_closure c s hn hk
    obtain ⟨e1, e2, e3, e4, e5, e6, e7, e8, e9, e10, e11, _⟩ := core_fields _ _ hc
    simp only [core, trainBest, hv, if_false] at e10 e11
    exact ⟨e10, e11⟩

/-! ### the closure-optimiser / no-validation configuration: the full claim is FALSE (known finding)

With a closure-based optimiser and `n_batches_valid = 0` the snapshot is taken after `optimizer.step(closure)`; the
recorded loss was computed inside the closure, before the step's last parameter update.  Concrete witness: loss =
value of the parameter, one closure evaluation followed by a shift of +5. -/

def cexCfg : Cfg :=
  { userLoss := fun _ θ _ _ => θ, metric := fun _ _ _ _ => 0, nMetrics := 0,
    plainStep := fun _ => 0, closureShifts := fun _ => [5] }

theorem closure_novalid_counterexample :
    let s' := trainEpoch cexCfg (init 0 .closure 1 0 0)
    s'.lowest = some 0 ∧ s'.best = some 5 ∧
    meanLoss cexCfg 0 5 true 0 1 ≠ 0 := by
  decide

/-- non-vacuity: a concrete non-monotone history with a tie -/
example :
    let c : Cfg := { userLoss := fun _ θ tr i => if tr then 0 else [7, 3, 9, 3, 5].getD i 0, metric := fun _ _ _ _ => 0,
                     nMetrics := 0, plainStep := fun k => k + 1, closureShifts := fun _ => [] }
    let s := fits c (fun _ _ => []) 0 [2, 3] (init 100 .plain 1 1 0)
    s.validLoss = [7, 3, 9, 3, 5] ∧ s.lowest = some 3 ∧ s.best = some 103 ∧ s.θ = 115 := by
  decide

end NdeVerif.C05
