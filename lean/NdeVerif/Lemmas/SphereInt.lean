/-
  Integration helpers for the orthogonality theorems of C17: separation of the sphere integral of a product
  `a θ * b φ`, and the fundamental theorem of calculus phrased for the generated antiderivative certificates.
-/
import Mathlib.MeasureTheory.Integral.IntervalIntegral.FundThmCalculus
import Mathlib.Analysis.SpecialFunctions.Trigonometric.Basic

namespace NdeVerif
open intervalIntegral

/-- the iterated integral of a separated integrand is the product of the two 1-D integrals (no integrability
hypothesis is needed: constant factors move out of Bochner integrals unconditionally) -/
theorem iterated_integral_split (f : ℝ → ℝ → ℝ) (a b : ℝ → ℝ) (p q r s : ℝ)
    (h : ∀ x y, f x y = a x * b y) :
    ∫ x in p..q, ∫ y in r..s, f x y = (∫ x in p..q, a x) * (∫ y in r..s, b y) := by
  simp only [h, integral_const_mul, integral_mul_const]

/-- FTC with a continuous integrand: an antiderivative certificate evaluates the integral -/
theorem integral_of_antiderivative (F f : ℝ → ℝ) (p q : ℝ) (hd : ∀ x, HasDerivAt F (f x) x)
    (hc : Continuous f) : ∫ x in p..q, f x = F q - F p :=
  integral_eq_sub_of_hasDerivAt (fun x _ => hd x) (hc.intervalIntegrable _ _)

end NdeVerif
