/-
  Bounding a polynomial with tiny coefficients on [-1, 1] (used for the float-rounding residue of the Legendre
  coefficients that neurodiffeq takes from scipy), and a bound for 1/π from Mathlib's 20-digit bounds.
-/
import Mathlib.Analysis.Real.Pi.Bounds
import Mathlib.Tactic.Ring
import Mathlib.Tactic.Linarith
import Mathlib.Tactic.NormNum

namespace NdeVerif

/-- Horner evaluation, lowest coefficient first -/
def polyEval (cs : List ℝ) (x : ℝ) : ℝ := cs.foldr (fun c acc => c + x * acc) 0

@[simp] theorem polyEval_nil (x : ℝ) : polyEval [] x = 0 := rfl
@[simp] theorem polyEval_cons (c : ℝ) (cs : List ℝ) (x : ℝ) : polyEval (c :: cs) x = c + x * polyEval cs x := rfl

theorem abs_polyEval_le (cs : List ℝ) (x : ℝ) (hx : |x| ≤ 1) : |polyEval cs x| ≤ (cs.map (fun c => |c|)).sum := by
  induction cs with
  | nil => simp
  | cons c cs ih =>
    simp only [polyEval_cons, List.map_cons, List.sum_cons]
    calc |c + x * polyEval cs x| ≤ |c| + |x * polyEval cs x| := abs_add_le _ _
      _ = |c| + |x| * |polyEval cs x| := by rw [abs_mul]
      _ ≤ |c| + 1 * |polyEval cs x| := by
          have := mul_le_mul_of_nonneg_right hx (abs_nonneg (polyEval cs x)); linarith
      _ ≤ |c| + (cs.map (fun c => |c|)).sum := by linarith


/-- the same with explicit coefficient bounds (so that no absolute value of a literal has to be computed) -/
theorem abs_polyEval_le_of (cs bs : List ℝ) (x : ℝ) (hx : |x| ≤ 1) (h : List.Forall₂ (fun c b => |c| ≤ b) cs bs) :
    |polyEval cs x| ≤ bs.sum := by
  refine le_trans (abs_polyEval_le cs x hx) ?_
  induction h with
  | nil => simp
  | cons hcb _ ih => simp only [List.map_cons, List.sum_cons]; linarith

end NdeVerif
