/- line-protocol driver for the legacy space-time model (NdeVerif.Model.Temporal), float64 reading.
   input: blocks separated by a line `---`.  Floats travel as their IEEE-754 bit patterns (decimal UInt64).
   first line of a block:
     `gen1d <size> <random> <minBits> <maxBits>`           then one line `r <bits>*` per next()
     `gent  <size> <random> <minBits> <maxBits>`           idem
     `seg   <size> <random> <x1> <y1> <x2> <y2>`           idem
     `rect  <xsize> <ysize> <random> <xmin> <xmax> <ymin> <ymax>`   lines `r <xbits>* | <ybits>*`
     `batches <n> <bs> <shuffle>`                          then one line `idx <i>*` (the recorded randperm)
     `history <epochs> <metric>*`
   output per block:
     samplers: per draw `p <bits>*` (seg/rect: `p <xx bits>* | <yy bits>*`), then the frame after the last draw:
               `center ...`, `consts <segLen/step bits> <noiseLo bits>`
     batches:  one line `b <i>,*` per calculate_loss call
     history:  one line `s <name> <v>,*` per series, in dict order
   every block ends with `---` -/
import NdeVerif.Model.Temporal
open NdeVerif.Temporal

def toks (l : String) : List String := (l.splitOn " ").filter (fun t => !t.isEmpty)

def fl (t : String) : Float := Float.ofBits (t.toNat?.getD 0).toUInt64
def flList (ts : List String) : List Float := ts.map fl
def showFl (xs : List Float) : String := " ".intercalate (xs.map fun x => toString x.toBits.toNat)
def showNats (xs : List Nat) : String := ",".intercalate (xs.map toString)

/-- `r a b c` -> [a, b, c] -/
def randLine (l : String) : List Float := flList ((toks l).drop 1)

/-- `r a b | c d` -> ([a, b], [c, d]) -/
def randLine2 (l : String) : List Float × List Float :=
  match l.splitOn "|" with
  | [a, b] => (flList ((toks a).drop 1), flList (toks b))
  | _ => ([], [])

/-- state after all draws (recomputed by folding `next`) -/
def final1d (g : Gen1D Float) (rs : List (List Float)) : Gen1D Float := rs.foldl (fun s r => (gen1dNext s r).1) g
def finalT (g : GenT Float) (rs : List (List Float)) : GenT Float := rs.foldl (fun s r => (genTNext s r).1) g
def finalSeg (g : GenSeg Float) (rs : List (List Float)) : GenSeg Float := rs.foldl (fun s r => (genSegNext s r).1) g
def finalRect (g : GenRect Float) (rs : List (List Float × List Float)) : GenRect Float :=
  rs.foldl (fun s r => (genRectNext s r).1) g

def runBlock (lines : List String) : List String :=
  match lines with
  | [] => []
  | hd :: rest =>
    match toks hd with
    | ["gen1d", size, random, a, b] =>
      let g := gen1dInit LF (size.toNat?.getD 0) (fl a) (fl b) (random == "1")
      let rs := rest.map randLine
      let f := final1d g rs
      (run1d g rs).map (fun p => "p " ++ showFl p) ++
        ["center " ++ showFl f.center, "consts " ++ showFl [f.segLen, f.noiseLo], "noise " ++ showFl f.noise]
    | ["gent", size, random, a, b] =>
      let g := genTInit LF (size.toNat?.getD 0) (fl a) (fl b) (random == "1")
      let rs := rest.map randLine
      let f := finalT g rs
      (runT g rs).map (fun p => "p " ++ showFl p) ++
        ["center " ++ showFl f.center, "consts " ++ showFl [f.segLen, f.noiseLo], "noise " ++ showFl f.noise]
    | ["seg", size, random, x1, y1, x2, y2] =>
      let g := genSegInit LF (size.toNat?.getD 0) (fl x1) (fl y1) (fl x2) (fl y2) (random == "1")
      let rs := rest.map randLine
      let f := finalSeg g rs
      (runSeg g rs).map (fun p => "p " ++ showFl p.1 ++ " | " ++ showFl p.2) ++
        ["center " ++ showFl f.center, "consts " ++ showFl [f.step, f.noiseLo], "noise " ++ showFl f.noise]
    | ["rect", xs, ys, random, a, b, c, d] =>
      let g := genRectInit LF (xs.toNat?.getD 0) (ys.toNat?.getD 0) (fl a) (fl b) (fl c) (fl d) (random == "1")
      let rs := rest.map randLine2
      let f := finalRect g rs
      (runRect g rs).map (fun p => "p " ++ showFl p.1 ++ " | " ++ showFl p.2) ++
        ["center " ++ showFl f.xGen.center ++ " | " ++ showFl f.yGen.center,
         "consts " ++ showFl [f.xGen.segLen, f.xGen.noiseLo, f.yGen.segLen, f.yGen.noiseLo],
         "noise " ++ showFl f.xGen.noise ++ " | " ++ showFl f.yGen.noise]
    | ["batches", n, bs, shuffle] =>
      let perm := ((toks (rest.headD "idx")).drop 1).filterMap (·.toNat?)
      (trainCalls (shuffle == "1") (n.toNat?.getD 0) (bs.toNat?.getD 0) perm).map fun b => "b " ++ showNats b
    | "history" :: epochs :: metrics =>
      (solveLoop metrics (epochs.toNat?.getD 0)).map fun e => "s " ++ e.1 ++ " " ++ showNats e.2
    | _ => ["bad-block"]

partial def readAll (h : IO.FS.Stream) (acc : List String) : IO (List String) := do
  let l ← h.getLine
  if l.isEmpty then return acc.reverse else readAll h (l.trimAscii.toString :: acc)

def splitBlocks (ls : List String) : List (List String) :=
  let rec go (ls : List String) (cur : List String) (acc : List (List String)) : List (List String) :=
    match ls with
    | [] => (if cur.isEmpty then acc else cur.reverse :: acc).reverse
    | l :: r => if l == "---" then go r [] (cur.reverse :: acc) else go r (l :: cur) acc
  go ls [] []

def main : IO Unit := do
  let ls ← readAll (← IO.getStdin) []
  let out ← IO.getStdout
  for b in splitBlocks ls do
    for o in runBlock b do out.putStrLn o
    out.putStrLn "---"
