/- line-protocol driver for the solver model (used by C04, C05, C15, C06).
   input: blocks separated by `---`; ops, one per line:
     init <θ0> <plain|closure> <nTrain> <nValid> <nMetrics>
     addl <0|1>                               -- the solver overrides additional_loss (scripted formula) or not
     override <train 0|1> <idx> <value>      -- per-draw loss override (ignores θ and lossId)
     sched <call> <epoch> <action...>        -- actions: stop | batches <n> | opt <plain|closure> | loss <id>
     fit <maxEpochs>
   output: per executed epoch one `E …` dump line; after each fit `F …` (final dump, and whether stepping epoch by
   epoch agrees with the model's `fit`) `LOG …` (events of that fit call, oldest first) and `GRADS […]` (the `.grad` seen by each optimiser step of that call); `---` per block. -/
import NdeVerif.Model.Solver
import NdeVerif.Model.Solution
import NdeVerif.Model.Persist
open NdeVerif.Solver NdeVerif.Solution NdeVerif.Persist

def lossFormula (lossId : Nat) (θ : Int) (train : Bool) (idx : Nat) : Int :=
  ((θ * 7 + (idx : Int) * 13 + (lossId : Int) * 31 + (if train then 5 else 0)) % 11) * 12 - 48

def metricFormula (m : Nat) (θ : Int) (train : Bool) (idx : Nat) : Int :=
  ((θ * 3 + (idx : Int) * 5 + (m : Int) * 17 + (if train then 1 else 0)) % 7) * 12

def plainFormula (k : Nat) : Int := ((k : Int) * 5) % 7 - 3

def closureFormula (k : Nat) : List Int :=
  (List.range (1 + k % 3)).map (fun j => (((k + j : Nat) : Int) % 5) - 2)

def addlFormula (θ : Int) (train : Bool) (idx : Nat) : Int :=
  ((θ * 5 + (idx : Int) * 3 + (if train then 2 else 0)) % 5) * 12

def gradFormula (lossId : Nat) (θ : Int) (_train : Bool) (idx : Nat) : Int :=
  ((θ * 3 + (idx : Int) * 7 + (lossId : Int) * 5) % 9) - 4

def addlGradFormula (θ : Int) (_train : Bool) (idx : Nat) : Int := ((θ + (idx : Int) * 2) % 5) - 2

def mkCfg (nMetrics : Nat) (ov : List (Bool × Nat × Int)) (addl : Bool) : Cfg :=
  { userLoss := fun l θ t i => match ov.find? (fun e => e.1 == t && e.2.1 == i) with
      | some e => e.2.2
      | none => lossFormula l θ t i
    metric := metricFormula, nMetrics := nMetrics, plainStep := plainFormula, closureShifts := closureFormula,
    addl := if addl then addlFormula else fun _ _ _ => 0,
    gradOf := fun l θ t i => gradFormula l θ t i + (if addl then addlGradFormula θ t i else 0) }

def showOpt : Option Int → String
  | none => "None"
  | some v => toString v

def showList (l : List Int) : String := "[" ++ ",".intercalate (l.map toString) ++ "]"

def showKind : OptKind → String
  | .plain => "plain"
  | .closure => "closure"

def dump (s : State) : String :=
  s!"theta={s.θ} opt={showKind s.optKind} loss={s.lossId} nT={s.nTrain} nV={s.nValid} " ++
  s!"train={showList s.trainLoss} valid={showList s.validLoss} " ++
  s!"tm={"|".intercalate (s.trainMetric.map showList)} vm={"|".intercalate (s.validMetric.map showList)} " ++
  s!"lowest={showOpt s.lowest} best={showOpt s.best} local={s.localEpoch} max={s.maxLocal} stop={s.stop} " ++
  s!"td={s.trainDraws} vd={s.validDraws} steps={s.steps}"

def showEvent : Event → Option String
  | .zeroGrad => some "Z"
  | .draw t i => some s!"D{if t then 1 else 0}:{i}"
  | .evalLoss l θ t i => some s!"L{l}:{θ}:{if t then 1 else 0}:{i}"
  | .step k n θ' => some s!"S{showKind k}:{n}:{θ'}"
  | .callbacks c e => some s!"C{c}:{e}"
  | _ => none

def parseKind (s : String) : OptKind := if s == "closure" then .closure else .plain

def parseActions : List String → List Action
  | "stop" :: r => .stop :: parseActions r
  | "batches" :: n :: r => .setTrainBatches n.toNat! :: parseActions r
  | "opt" :: k :: r => .setOpt (parseKind k) :: parseActions r
  | "loss" :: i :: r => .setLoss i.toNat! :: parseActions r
  | _ => []

structure DState where
  s : State
  nMetrics : Nat
  ov : List (Bool × Nat × Int)
  sched : List (Nat × Nat × List Action)
  call : Nat
  out : List String
  sols : List (Option Sol) := []
  addl : Bool := false

def schedFn (l : List (Nat × Nat × List Action)) : Nat → Nat → List Action :=
  fun c e => (l.filter (fun x => x.1 == c && x.2.1 == e)).flatMap (·.2.2)

def stepLoop (c : Cfg) (sched : Nat → Nat → List Action) (call : Nat) : Nat → Nat → State → List String → State × List String
  | 0, _, s, out => (s, out)
  | k+1, i, s, out => if s.stop then (s, out) else
      let s' := epoch c sched call i s
      stepLoop c sched call k (i+1) s' (("E " ++ dump s') :: out)

def runOp (d : DState) (line : String) : DState :=
  match line.splitOn " " with
  | ["init", θ0, k, nT, nV, nM] =>
    { d with s := init θ0.toInt! (parseKind k) nT.toNat! nV.toNat! nM.toNat!, nMetrics := nM.toNat!, ov := [], sched := [], call := 0, sols := [], addl := false }
  | ["addl", b] => { d with addl := b == "1" }
  | ["override", t, i, v] => { d with ov := d.ov ++ [(t == "1", i.toNat!, v.toInt!)] }
  | "sched" :: c :: e :: acts => { d with sched := d.sched ++ [(c.toNat!, e.toNat!, parseActions acts)] }
  | ["fit", m] =>
    let c := mkCfg d.nMetrics d.ov d.addl
    let sf := schedFn d.sched
    let m := m.toNat!
    let s0 := { d.s with log := [] }
    let (s1, out) := stepLoop c sf d.call m 0 { s0 with stop := false, maxLocal := m } d.out
    let s2 := fit c sf d.call m s0
    let agree := dump s1 == dump s2 && s1.log == s2.log
    let log := " ".intercalate (s1.log.reverse.filterMap showEvent)
    let grads := "GRADS " ++ showList (gradTrace c s1.log).2
    { d with s := s1, call := d.call + 1, out := grads :: ("LOG " ++ log) :: (s!"F agree={agree} " ++ dump s1) :: out }
  | [op] =>
    if op == "train" || op == "valid" then
      -- an epoch run by hand: solver.run_train_epoch() / solver.run_valid_epoch()
      let c := mkCfg d.nMetrics d.ov d.addl
      let s0 := { d.s with log := [] }
      let s1 := if op == "train" then trainEpoch c s0 else validEpoch c s0
      let log := " ".intercalate (s1.log.reverse.filterMap showEvent)
      { d with s := s1, out := ("LOG " ++ log) :: (s!"M {op} " ++ dump s1) :: d.out }
    else if op == "evalsols" then
      { d with out := ("EVAL " ++ " ".intercalate (d.sols.map fun o => match o with
          | none => "x" | some sol => toString (evalθ d.s sol))) :: d.out }
    else { d with out := ("bad-op " ++ line) :: d.out }
  | ["save", ok, k] =>
    let r := save (ok == "1") k.toNat! d.s
    { d with s := r.1, out := s!"SAVE wrote={r.2.isSome} {dump r.1}" :: d.out }
  | ["saveload", k] =>
    let l := load (file (save true k.toNat! d.s).1) 1 4 d.nMetrics
    { d with s := l, call := 0, sched := [], out := ("SL " ++ dump l) :: d.out }
  | ["getsol", cp, b] =>
    let r := getSolution (cp == "1") (b == "1") d.s
    { d with sols := d.sols ++ [r], out := (match r with | none => "SOL error" | some .live => "SOL live" | some (.frozen _) => "SOL frozen") :: d.out }
  | "shape" :: n :: np :: nr :: dims =>
    let o := callShape n.toNat! (dims.map String.toNat!) (np == "1") (nr == "1")
    let str := match o with
      | .single sh npy => s!"single {sh} numpy={npy}"
      | .many k sh npy => s!"many {k} {sh} numpy={npy}"
    { d with out := ("SHAPE " ++ str) :: d.out }
  | _ => { d with out := ("bad-op " ++ line) :: d.out }

partial def readAll (h : IO.FS.Stream) (acc : List String) : IO (List String) := do
  let l ← h.getLine
  if l.isEmpty then return acc.reverse else readAll h (l.trimAscii.toString :: acc)

def main : IO Unit := do
  let ls ← readAll (← IO.getStdin) []
  let mut d : DState := ⟨init 0 .plain 1 1 0, 0, [], [], 0, [], [], false⟩
  for l in ls do
    if l == "---" then
      for o in d.out.reverse do IO.println o
      IO.println "---"
      d := { d with out := [] }
    else if l.isEmpty then pure ()
    else d := runOp d l
  for o in d.out.reverse do IO.println o
