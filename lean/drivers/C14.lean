/- line-protocol driver for the BatchGenerator model.
   input: blocks separated by a line `---`; each block:
     line 1: `<batch_size> <n_calls> <fuel>`
     following lines: one underlying draw per line, dimensions separated by `|`, integer values by `,`
   output per block: one line per call `batch <dims>` then `cached <dims>` and `next <m>` and `---` -/
import NdeVerif.Model.Batch
open NdeVerif.Batch

def parseDims (l : String) : List (List Val) :=
  (l.splitOn "|").map fun d =>
    if d.trimAscii.toString.isEmpty then [] else (d.splitOn ",").filterMap (fun t => t.trimAscii.toString.toInt?)

def showDims (c : List (List Val)) : String :=
  "|".intercalate (c.map fun d => ",".intercalate (d.map toString))

def runBlock (lines : List String) : List String :=
  match lines with
  | [] => []
  | hd :: rest =>
    match (hd.splitOn " ").filterMap (fun t => t.toNat?) with
    | [bs, k, fuel] =>
      let draws := rest.map parseDims
      let nd := (draws.headD []).length
      let src : Nat → List (List Val) := fun i => draws.getD i (List.replicate nd [])
      let (s, bsx) := calls src bs fuel k (init src)
      bsx.map (fun b => "batch " ++ showDims b) ++ ["cached " ++ showDims s.cached, s!"next {s.next}"]
    | _ => ["bad-block"]

partial def readAll (h : IO.FS.Stream) (acc : List String) : IO (List String) := do
  let l ← h.getLine
  if l.isEmpty then return acc.reverse else readAll h (l.trimAscii.toString :: acc)

def splitBlocks (ls : List String) : List (List String) :=
  let rec go (ls : List String) (cur : List String) (acc : List (List String)) : List (List String) :=
    match ls with
    | [] => (if cur.isEmpty then acc else cur.reverse :: acc).reverse
    | l :: r => if l == "---" then go r [] (cur.reverse :: acc) else go r (l :: cur) acc
  go ls [] []

def main : IO Unit := do
  let ls ← readAll (← IO.getStdin) []
  for b in splitBlocks ls do
    for o in runBlock b do IO.println o
    IO.println "---"
