/- line-protocol driver for the atomic-generator model (`NdeVerif.AtomicGen` at `α = Float`).
   Floats travel as IEEE-754 bit patterns (decimal UInt64), strings as comma-separated code points, so
   nothing is lost in transport.  Blocks are separated by a line `---`.

   block `accept <cls> <codes>`         -> `accept` | `ValueError`      (method-name table of class cls)
   block `run <cls>` / cfg line / `ctor` / draw lines / (`call` / draw lines)*
     cfg line   g1 : <method> n a b <noise|none>
                g2 : <method> n0 n1 a0 a1 b0 b1 <sx|none> <sy|none>
                g3 : <method> n0 n1 n2 a0 a1 a2 b0 b1 b2
                nd : <noisy 0|1> then per axis: <method> n a b base <noise|none>
                sph: <method> n rmin rmax
     draw line  `f b,b,…` (rand / standard-normal variates)   or   `n k,k,…` (randperm / randint)
     output     `ctor ok size <s> dims <d> grad <0|1> ctorshape <…> callshape <…>` | `ctor ValueError`
                per call: `call ok` then one line of bit patterns per dimension | `call RuntimeError` -/
import NdeVerif.Model.AtomicGen
open NdeVerif.AtomicGen

def toks (l : String) : List String := (l.splitOn " ").filter (fun t => !t.isEmpty)

def decodeStr (t : String) : String :=
  if t == "-" then "" else String.ofList ((t.splitOn ",").filterMap (fun c => c.toNat?.map Char.ofNat))

def flt (t : String) : Float := Float.ofBits (UInt64.ofNat (t.toNat?.getD 0))
def optFlt (t : String) : Option Float := if t == "none" then none else some (flt t)
def nat (t : String) : Nat := t.toNat?.getD 0

def showCol (c : List Float) : String := ",".intercalate (c.map fun x => toString x.toBits.toNat)
def showShape (s : List (Kind × Nat)) : String :=
  if s.isEmpty then "-" else ",".intercalate (s.map fun (k, n) => s!"{k.name}:{n}")

def parseDraw (l : String) : Option (Draw Float) :=
  match toks l with
  | ["f"] => some (.f [])
  | ["n"] => some (.n [])
  | ["f", xs] => some (.f ((xs.splitOn ",").map flt))
  | ["n", xs] => some (.n ((xs.splitOn ",").map nat))
  | _ => none

/-- split the lines after the cfg line into the ctor draws and one draw list per call -/
def sections (ls : List String) : List (List (Draw Float)) :=
  let rec go (ls : List String) (cur : List (Draw Float)) (acc : List (List (Draw Float))) (started : Bool) :=
    match ls with
    | [] => (if started then cur.reverse :: acc else acc).reverse
    | l :: r =>
      if l == "ctor" || l == "call" then go r [] (if started then cur.reverse :: acc else acc) true
      else match parseDraw l with
        | some d => go r (d :: cur) acc started
        | none => go r cur acc started
  go ls [] [] false

def parseAxes : List String → Option (List (Axis Float))
  | [] => some []
  | m :: n :: a :: b :: base :: noise :: rest => do
    let mm ← MN.parse (decodeStr m)
    let r ← parseAxes rest
    pure (⟨mm, nat n, flt a, flt b, flt base, optFlt noise⟩ :: r)
  | _ => none

/-- `none` = the constructor raises `ValueError: Unknown method` -/
def parseCfg (cls : String) (t : List String) : Option (Cfg Float) :=
  match cls, t with
  | "g1", [m, n, a, b, noise] => (M1.parse (decodeStr m)).map fun mm => .g1 ⟨mm, nat n, flt a, flt b, optFlt noise⟩
  | "g2", [m, n0, n1, a0, a1, b0, b1, sx, sy] =>
    (M2.parse (decodeStr m)).map fun mm =>
      .g2 ⟨mm, nat n0, nat n1, flt a0, flt a1, flt b0, flt b1,
           match optFlt sx, optFlt sy with | some x, some y => some (x, y) | _, _ => none⟩
  | "g3", [m, n0, n1, n2, a0, a1, a2, b0, b1, b2] =>
    (M3.parse (decodeStr m)).map fun mm => .g3 ⟨mm, nat n0, nat n1, nat n2, flt a0, flt a1, flt a2, flt b0, flt b1, flt b2⟩
  | "nd", noisy :: rest => (parseAxes rest).map fun axes => .nd ⟨axes, noisy == "1"⟩
  | "sph", [m, n, rmin, rmax] => (MS.parse (decodeStr m)).map fun mm => .sph ⟨mm, nat n, flt rmin, flt rmax⟩
  | _, _ => none

def ctorOk : Cfg Float → Bool
  | .g1 c => c.ctorOk
  | .sph c => c.ctorOk
  | _ => true

def callOk (cfg : Cfg Float) (ctor : List (Draw Float)) : Bool :=
  match cfg with
  | .nd c => if c.noisy then stdOk (c.gridStd ctor) else true
  | _ => true

def accepts (cls m : String) : Bool :=
  match cls with
  | "g1" => (M1.parse m).isSome
  | "g2" => (M2.parse m).isSome
  | "g3" => (M3.parse m).isSome
  | "nd" => (MN.parse m).isSome
  | "sph" => (MS.parse m).isSome
  | _ => false

def runBlock (lines : List String) : List String :=
  match lines with
  | [] => []
  | hd :: rest =>
    match toks hd, rest with
    | ["accept", cls, m], _ => [if accepts cls (decodeStr m) then "accept" else "ValueError"]
    | ["accept", cls], _ => [if accepts cls "" then "accept" else "ValueError"]
    | ["run", cls], cfgLine :: body =>
      match parseCfg cls (toks cfgLine) with
      | none => ["ctor ValueError"]
      | some cfg =>
        if !ctorOk cfg then ["ctor ValueError"] else
        let secs := sections body
        let ctor := secs.headD []
        let hdr := s!"ctor ok size {cfg.size} dims {cfg.dims} grad {if cfg.requiresGrad then 1 else 0} " ++
          s!"ctorshape {showShape cfg.ctorShape} callshape {showShape cfg.callShape}"
        hdr :: (secs.drop 1).flatMap fun call =>
          if callOk cfg ctor then "call ok" :: (run cfg ctor call).map showCol else ["call RuntimeError"]
    | _, _ => ["bad-block"]

partial def readAll (h : IO.FS.Stream) (acc : List String) : IO (List String) := do
  let l ← h.getLine
  if l.isEmpty then return acc.reverse else readAll h (l.trimAscii.toString :: acc)

def splitBlocks (ls : List String) : List (List String) :=
  let rec go (ls : List String) (cur : List String) (acc : List (List String)) : List (List String) :=
    match ls with
    | [] => (if cur.isEmpty then acc else cur.reverse :: acc).reverse
    | l :: r => if l == "---" then go r [] (cur.reverse :: acc) else go r (l :: cur) acc
  go ls [] []

def main : IO Unit := do
  let ls ← readAll (← IO.getStdin) []
  for b in splitBlocks ls do
    for o in runBlock b do IO.println o
    IO.println "---"
