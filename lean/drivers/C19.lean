/- line-protocol driver for the networks model (NdeVerif.Model.Networks).
   Blocks are separated by a line `---`.  Floats travel as the decimal value of their IEEE-754 bit pattern
   (exact in both directions).  First line of a block selects the operation:

   `init fcnn   <nIn> <nOut> <nHU|-> <nHL|-> <hidden>`   hidden: `-` (None) | `()` | `3,4,5`
   `init resnet <nIn> <nOut> <nHU|-> <nHL|-> <hidden>`   hidden additionally `omit` (argument not passed)
        -> `raise` | [`skip L <in> <out> <bias>`] then one line per layer: `L <in> <out> <bias>` | `A`
   `fwd fcnn|resnet`
        then module lines in the order of the real module tree: `S <rows>` (resnet skip, first), `L <rows>[|<bias>]`,
        `A <act>` with act: `tanh` | `sin` | `swish <beta>` | `aptx <alpha> <beta> <gamma>` (the module's own values)
        (rows separated by `;`, entries by spaces), then one `X <entries>` line per input row
        -> one `Y <entries>` line per row
   `mono int <n>` | `mono list <d,d,..>` then `X` lines  -> `raise` | `D <degrees>` then `Y` lines
   `params <tanh|sin|swish|aptx> <0|1>` -> `P <names joined by ,>`
   every block's output ends with `---` -/
import NdeVerif.Model.Networks
open NdeVerif.Networks

def floatFns : Fns Float := ⟨Float.exp, Float.tanh, Float.sin⟩

def toks (s : String) : List String := (s.splitOn " ").filter (fun t => !t.isEmpty)

def parseF (t : String) : Float := Float.ofBits (UInt64.ofNat (t.toNat?.getD 0))
def showF (x : Float) : String := toString x.toBits.toNat
def parseRow (s : String) : List Float := (toks s).map parseF
def showRow (r : List Float) : String := " ".intercalate (r.map showF)

def parseOptInt (t : String) : Option Int := if t == "-" then none else t.toInt?
def parseIntList (t : String) : List Int := if t == "()" then [] else (t.splitOn ",").filterMap (fun s => s.toInt?)

def showLayer : Layer → String
  | .linear i o b => s!"L {i} {o} {if b then 1 else 0}"
  | .actv => "A"

def parseAct (ts : List String) : Option (Act Float) :=
  match ts with
  | ["tanh"] => some .tanh
  | ["sin"] => some .sin
  | ["swish", b] => some (.swish (parseF b))
  | ["aptx", a, b, c] => some (.aptx (parseF a) (parseF b) (parseF c))
  | _ => none

def parseLin (body : String) : Lin Float :=
  match body.splitOn "|" with
  | [w] => ⟨(w.splitOn ";").map parseRow, none⟩
  | [w, b] => ⟨(w.splitOn ";").map parseRow, some (parseRow b)⟩
  | _ => ⟨[], none⟩

structure FwdSt where
  skip : Option (Lin Float) := none
  mods : List (SeqMod Float) := []      -- reversed
  rows : List (List Float) := []     -- reversed
  bad : Bool := false

def fwdParse (ls : List String) : FwdSt :=
  ls.foldl (fun st l =>
    if l.startsWith "S " then { st with skip := some (parseLin (l.drop 2).toString) }
    else if l.startsWith "L " then { st with mods := SeqMod.lin (parseLin (l.drop 2).toString) :: st.mods }
    else if l.startsWith "A " then
      match parseAct (toks (l.drop 2).toString) with
      | some act => { st with mods := SeqMod.act act :: st.mods }
      | none => { st with bad := true }
    else if l.startsWith "X" then { st with rows := parseRow (l.drop 1).toString :: st.rows }
    else st) {}

def runBlock (lines : List String) : List String :=
  match lines with
  | [] => []
  | hd :: rest =>
    match toks hd with
    | ["init", "fcnn", i, o, hu, hl, h] =>
      match i.toInt?, o.toInt? with
      | some i, some o =>
        -- the signature default of FCNN is `hidden_units=None`: an omitted argument is `none`
        match fcnnInit i o (parseOptInt hu) (parseOptInt hl) (if h == "-" || h == "omit" then none else some (parseIntList h)) with
        | none => ["raise"]
        | some ls => ls.map showLayer
      | _, _ => ["bad-block"]
    | ["init", "resnet", i, o, hu, hl, h] =>
      match i.toInt?, o.toInt? with
      | some i, some o =>
        let r := if h == "omit" then resnetInit i o (parseOptInt hu) (parseOptInt hl)
                 else resnetInit i o (parseOptInt hu) (parseOptInt hl) (if h == "-" then none else some (parseIntList h))
        match r with
        | none => ["raise"]
        | some (sk, ls) => ("skip " ++ showLayer sk) :: ls.map showLayer
      | _, _ => ["bad-block"]
    | ["fwd", kind] =>
      let st := fwdParse rest
      if st.bad then ["bad-act"] else
        let ms := st.mods.reverse
        let rows := st.rows.reverse
        let out :=
          if kind == "resnet" then
            match st.skip with
            | some sk => resnetForward floatFns sk ms rows
            | none => []
          else fcnnForward floatFns ms rows
        out.map (fun r => "Y " ++ showRow r)
    | ["mono", "int", n] =>
      match monomialInit (.inl (n.toInt?.getD 0)) with
      | none => ["raise"]
      | some ds =>
        let rows := (rest.filter (·.startsWith "X")).map (fun l => parseRow (l.drop 1).toString)
        ("D " ++ ",".intercalate (ds.map toString)) :: (monomialForward ds rows).map (fun r => "Y " ++ showRow r)
    | ["mono", "list", d] =>
      match monomialInit (.inr ((parseIntList d).map Int.toNat)) with
      | none => ["raise"]
      | some ds =>
        let rows := (rest.filter (·.startsWith "X")).map (fun l => parseRow (l.drop 1).toString)
        ("D " ++ ",".intercalate (ds.map toString)) :: (monomialForward ds rows).map (fun r => "Y " ++ showRow r)
    | ["params", k, tr] =>
      let kind : Option ActKind := match k with
        | "tanh" => some .tanh | "sin" => some .sin | "swish" => some .swish | "aptx" => some .aptx | _ => none
      match kind with
      | none => ["bad-kind"]
      | some kd => ["P " ++ ",".intercalate (paramNames kd (tr == "1"))]
    | _ => ["bad-block"]

partial def readAll (h : IO.FS.Stream) (acc : List String) : IO (List String) := do
  let l ← h.getLine
  if l.isEmpty then return acc.reverse else readAll h (l.trimAscii.toString :: acc)

def splitBlocks (ls : List String) : List (List String) :=
  let rec go (ls : List String) (cur : List String) (acc : List (List String)) : List (List String) :=
    match ls with
    | [] => (if cur.isEmpty then acc else cur.reverse :: acc).reverse
    | l :: r => if l == "---" then go r [] (cur.reverse :: acc) else go r (l :: cur) acc
  go ls [] []

def main : IO Unit := do
  let ls ← readAll (← IO.getStdin) []
  for b in splitBlocks ls do
    for o in runBlock b do IO.println o
    IO.println "---"
