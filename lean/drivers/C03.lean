/- line-protocol driver for the `diff` model (NdeVerif.Model.DiffLoop).
   input: blocks separated by a line `---`; first line of a block = command.

   `eval <g>`            g = 1: also print, per row, the value of `D c result` for every column c < ncols
     `cols <ncols>`
     `prog <expression in prefix tokens>`
     `diffs x1 k1 x2 k2 …`       nested calls diff(diff(u, x1, k1), x2, k2) …  (orders are Python ints)
     `pt <bits of column 0> <bits of column 1> …`   one line per row, IEEE-754 bits of float64 as decimal UInt64
   output: `info <size of result> <none-step of call 1> <none-step of call 2> …`
           `val <bits> [<bits of D 0 result> …]` per row

   `sym` + `prog` + `diffs`   output: `tree <prefix tokens of the model's result>`

   `shapes`  followed by lines `<shape_check 0|1> <dims of u, comma separated, '-' for ()> <dims of t>`
   output per line: `returned` | `raised notColumn` | `raised mismatch`

   prefix tokens: `v i` `n k` `r p q` `pi` `add a b` `mul a b` `neg a` `inv a` `pow k a` `exp a` … `atan2 a b`
                  `app f n m1 … mn a1 … an` -/
import NdeVerif.Model.DiffLoop
open NdeVerif NdeVerif.DiffLoop NdeVerif.Shapes

def ufOf : String → Option UF
  | "exp" => some .exp | "sin" => some .sin | "cos" => some .cos | "tanh" => some .tanh
  | "log" => some .log | "sqrt" => some .sqrt | "abs" => some .abs | _ => none

def ufName : UF → String
  | .exp => "exp" | .sin => "sin" | .cos => "cos" | .tanh => "tanh" | .log => "log" | .sqrt => "sqrt" | .abs => "abs"

mutual
partial def parseEx : List String → Option (Ex × List String)
  | "v" :: i :: r => i.toNat?.map fun i => (.var i, r)
  | "n" :: k :: r => k.toNat?.map fun k => (.nat k, r)
  | "r" :: p :: q :: r => do let p ← p.toInt?; let q ← q.toNat?; pure (.rat p q, r)
  | "pi" :: r => some (.pi, r)
  | "add" :: r => do let (a, r) ← parseEx r; let (b, r) ← parseEx r; pure (.add a b, r)
  | "mul" :: r => do let (a, r) ← parseEx r; let (b, r) ← parseEx r; pure (.mul a b, r)
  | "atan2" :: r => do let (a, r) ← parseEx r; let (b, r) ← parseEx r; pure (.atan2 a b, r)
  | "neg" :: r => do let (a, r) ← parseEx r; pure (.neg a, r)
  | "inv" :: r => do let (a, r) ← parseEx r; pure (.inv a, r)
  | "pow" :: k :: r => do let k ← k.toNat?; let (a, r) ← parseEx r; pure (.pow a k, r)
  | "app" :: f :: n :: r => do
      let f ← f.toNat?; let n ← n.toNat?
      if r.length < n then none else
      let mi ← (r.take n).mapM (·.toNat?)
      let (args, r) ← parseArgs n (r.drop n)
      pure (.app f n (fun i => mi.getD i.val 0) (fun i => args.getD i.val (.nat 0)), r)
  | t :: r => do let f ← ufOf t; let (a, r) ← parseEx r; pure (.un f a, r)
  | [] => none
partial def parseArgs : Nat → List String → Option (List Ex × List String)
  | 0, r => some ([], r)
  | n+1, r => do let (a, r) ← parseEx r; let (as, r) ← parseArgs n r; pure (a :: as, r)
end

partial def showEx : Ex → List String
  | .var i => ["v", toString i]
  | .nat k => ["n", toString k]
  | .rat p q => ["r", toString p, toString q]
  | .pi => ["pi"]
  | .add a b => "add" :: showEx a ++ showEx b
  | .mul a b => "mul" :: showEx a ++ showEx b
  | .atan2 a b => "atan2" :: showEx a ++ showEx b
  | .neg a => "neg" :: showEx a
  | .inv a => "inv" :: showEx a
  | .pow a k => "pow" :: toString k :: showEx a
  | .un f a => ufName f :: showEx a
  | .app f n mi args =>
      ["app", toString f, toString n] ++ (List.finRange n).map (fun i => toString (mi i)) ++
        (List.finRange n).flatMap (fun i => showEx (args i))

def toks (l : String) : List String := (l.splitOn " ").filter (· ≠ "")

def parsePairs : List String → Option (List (Nat × Int))
  | [] => some []
  | x :: k :: r => do let x ← x.toNat?; let k ← k.toInt?; let rest ← parsePairs r; pure ((x, k) :: rest)
  | _ => none

/-- nested calls, innermost first; returns the result and the none-step of every call -/
def runDiffs (u : Ex) : List (Nat × Int) → Ex × List Nat
  | [] => (u, [])
  | (x, k) :: r =>
    let s := noneStep autograd u x k
    let (res, ss) := runDiffs (unsafeDiff autograd u x k) r
    (res, s :: ss)

def field (name : String) (lines : List String) : Option (List String) :=
  (lines.find? (fun l => (toks l).head? == some name)).map (fun l => (toks l).drop 1)

def bitsOf (f : Float) : String := toString f.toBits.toNat

def runBlock (lines : List String) : List String :=
  match lines with
  | [] => []
  | hd :: rest =>
    match toks hd with
    | ["shapes"] =>
      rest.map fun l =>
        match toks l with
        | [sc, u, t] =>
          let dims (s : String) : List Nat := if s == "-" then [] else (s.splitOn ",").filterMap (·.toNat?)
          match Shapes.diff autograd (dims u) (dims t) (.var 0) 0 1 (sc == "1") with
          | .returned _ => "returned"
          | .raised .notColumn => "raised notColumn"
          | .raised .mismatch => "raised mismatch"
          | .raised .pass => "raised pass"
        | _ => "bad-line"
    | "sym" :: _ =>
      match (field "prog" rest).bind parseEx, (field "diffs" rest).bind parsePairs with
      | some (u, []), some ds => [" ".intercalate ("tree" :: showEx (runDiffs u ds).1)]
      | _, _ => ["bad-block"]
    | ["eval", g] =>
      match (field "prog" rest).bind parseEx, (field "diffs" rest).bind parsePairs, (field "cols" rest) with
      | some (u, []), some ds, some [nc] =>
        let nc := nc.toNat?.getD 0
        let (res, steps) := runDiffs u ds
        let grads := if g == "1" then (List.range nc).map (fun c => res.D c) else []
        let rows := rest.filter (fun l => (toks l).head? == some "pt")
        let out := rows.map fun l =>
          let vals := ((toks l).drop 1).filterMap (·.toNat?) |>.map (fun b => Float.ofBits b.toUInt64)
          let ρ : Nat → Float := fun i => vals.getD i 0.0
          " ".intercalate ("val" :: bitsOf (res.evalF ρ) :: grads.map (fun d => bitsOf (d.evalF ρ)))
        (" ".intercalate ("info" :: toString res.size :: steps.map toString)) :: out
      | _, _, _ => ["bad-block"]
    | _ => ["bad-block"]

partial def readAll (h : IO.FS.Stream) (acc : List String) : IO (List String) := do
  let l ← h.getLine
  if l.isEmpty then return acc.reverse else readAll h (l.trimAscii.toString :: acc)

def splitBlocks (ls : List String) : List (List String) :=
  let rec go (ls : List String) (cur : List String) (acc : List (List String)) : List (List String) :=
    match ls with
    | [] => (if cur.isEmpty then acc else cur.reverse :: acc).reverse
    | l :: r => if l == "---" then go r [] (cur.reverse :: acc) else go r (l :: cur) acc
  go ls [] []

def main : IO Unit := do
  let ls ← readAll (← IO.getStdin) []
  for b in splitBlocks ls do
    for o in runBlock b do IO.println o
    IO.println "---"
