/- line-protocol driver for the generator-combinator model (NdeVerif.Model.GenComb).
   input: blocks separated by a line `---`; each block:
     line 1: `<n_calls>`
     line 2: the expression, prefix tokens separated by blanks:
        L id dims k s1 … sk | C n e1 … en | E n e1 … en | M n e1 … en | + a b | * a b | ^ a b
        T P k m1 … mk e  (m = `_` or `a:b`) | T R e | T A a:b e
        F <all | mod m r | lt c> <size | -> <0|1 update> e | R <size | -> <0|1 replacement> e
        S e | P k (n v1 … vn)×k | Z e
     following lines: `idx i1,i2,…` — the index tensors recorded from the real run, in request order
   output per block: `build ok|error <Err>`, `size n`, `sizes …` (pre-order), `stable n d|none`; per call `ok 0|1`,
   `call <cols>`, `shapes …`, `size n`, `sizes …`, `stable …`; `error <Err>` at the first exception; `idxleft n`; then `---` -/
import NdeVerif.Model.GenComb
open NdeVerif.GenComb

def parseAff (t : String) : Option Aff :=
  match t.splitOn ":" with
  | [a, b] => do pure ⟨← a.toInt?, ← b.toInt?⟩
  | _ => none

def takeNats : Nat → List String → Option (List Nat × List String)
  | 0, ts => some ([], ts)
  | k + 1, t :: ts => do
    let n ← t.toNat?
    let (ns, r) ← takeNats k ts
    pure (n :: ns, r)
  | _, [] => none

def takeInts : Nat → List String → Option (List Int × List String)
  | 0, ts => some ([], ts)
  | k + 1, t :: ts => do
    let n ← t.toInt?
    let (ns, r) ← takeInts k ts
    pure (n :: ns, r)
  | _, [] => none

def optNat (t : String) : Option (Option Nat) := if t == "-" then some none else t.toNat?.map some

mutual
partial def parseE : List String → Option (GenExpr × List String)
  | "L" :: id :: dims :: k :: ts => do
    let (ss, r) ← takeNats (← k.toNat?) ts
    pure (.leaf (← id.toNat?) (← dims.toNat?) ss, r)
  | "C" :: n :: ts => do let (es, r) ← parseN (← n.toNat?) ts; pure (.concat es, r)
  | "E" :: n :: ts => do let (es, r) ← parseN (← n.toNat?) ts; pure (.ensemble es, r)
  | "M" :: n :: ts => do let (es, r) ← parseN (← n.toNat?) ts; pure (.mesh es, r)
  | "+" :: ts => do let (a, r) ← parseE ts; let (b, r) ← parseE r; pure (.opAdd a b, r)
  | "*" :: ts => do let (a, r) ← parseE ts; let (b, r) ← parseE r; pure (.opMul a b, r)
  | "^" :: ts => do let (a, r) ← parseE ts; let (b, r) ← parseE r; pure (.opXor a b, r)
  | "T" :: "P" :: k :: ts => do
    let k ← k.toNat?
    if ts.length < k then none else
    let ms ← (ts.take k).mapM (fun t => if t == "_" then some none else (parseAff t).map some)
    let (e, r) ← parseE (ts.drop k)
    pure (.transform e (.perDim ms), r)
  | "T" :: "R" :: ts => do let (e, r) ← parseE ts; pure (.transform e .rev, r)
  | "T" :: "A" :: f :: ts => do let (e, r) ← parseE ts; pure (.transform e (.affAll (← parseAff f)), r)
  | "F" :: "all" :: sz :: u :: ts => do
    let (e, r) ← parseE ts; pure (.filter e .all (← optNat sz) (u == "1"), r)
  | "F" :: "mod" :: m :: rr :: sz :: u :: ts => do
    let (e, r) ← parseE ts; pure (.filter e (.modEq (← m.toNat?) (← rr.toNat?)) (← optNat sz) (u == "1"), r)
  | "F" :: "lt" :: c :: sz :: u :: ts => do
    let (e, r) ← parseE ts; pure (.filter e (.lt (← c.toInt?)) (← optNat sz) (u == "1"), r)
  | "R" :: sz :: rp :: ts => do let (e, r) ← parseE ts; pure (.resample e (← optNat sz) (rp == "1"), r)
  | "S" :: ts => do let (e, r) ← parseE ts; pure (.static e, r)
  | "P" :: k :: ts => do let (cs, r) ← parseCols (← k.toNat?) ts; pure (.predefined cs, r)
  | "Z" :: ts => do let (e, r) ← parseE ts; pure (.sampler e, r)
  | _ => none
partial def parseN : Nat → List String → Option (List GenExpr × List String)
  | 0, ts => some ([], ts)
  | k + 1, ts => do
    let (e, r) ← parseE ts
    let (es, r) ← parseN k r
    pure (e :: es, r)
partial def parseCols : Nat → List String → Option (List (List Int) × List String)
  | 0, ts => some ([], ts)
  | k + 1, n :: ts => do
    let (c, r) ← takeInts (← n.toNat?) ts
    let (cs, r) ← parseCols k r
    pure (c :: cs, r)
  | _, [] => none
end

def showDims (c : Data) : String :=
  "|".intercalate (c.map fun d => ",".intercalate (d.map toString))

def showShapes (s : List (List Nat)) : String :=
  "|".intercalate (s.map fun d => "x".intercalate (d.map toString))

def showErr : Err → String
  | .valueError => "ValueError" | .typeError => "TypeError" | .indexError => "IndexError" | .runtimeError => "RuntimeError"
  | .badIndices => "BadIndices" | .empty => "Empty" | .unsupported => "Unsupported"

def showStable (o : Obj) : String :=
  match shapeOf o with
  | some (n, d) => s!"stable {n} {d}"
  | none => "stable none"

def runCalls : Nat → Obj → World → List String
  | 0, _, w => [s!"idxleft {w.idx.length}"]
  | k + 1, o, w =>
    let okb := okRun o w
    let r := run o w
    match r.2.2.err with
    | some e => [s!"error {showErr e}", s!"idxleft {r.2.2.idx.length}"]
    | none =>
      [s!"ok {if okb then 1 else 0}", "call " ++ showDims r.1, "shapes " ++ showShapes (outShapes o r.1),
       s!"size {r.2.1.size}", "sizes " ++ ",".intercalate ((allSizes r.2.1).map toString), showStable r.2.1] ++ runCalls k r.2.1 r.2.2

def runBlock (lines : List String) : List String :=
  match lines with
  | k :: expr :: rest =>
    match k.trimAscii.toString.toNat?, parseE ((expr.splitOn " ").filter (· ≠ "")) with
    | some k, some (e, []) =>
      let idx := rest.filterMap fun l =>
        if l.startsWith "idx" then
          some (((l.drop 3).trimAscii.toString.splitOn ",").filterMap (fun t => t.trimAscii.toString.toNat?))
        else none
      match buildTop e { idx := idx } with
      | .error er => [s!"build error {showErr er}"]
      | .ok (o, w) => ["build ok", s!"size {o.size}", "sizes " ++ ",".intercalate ((allSizes o).map toString), showStable o] ++ runCalls k o w
    | _, _ => ["bad-block"]
  | _ => ["bad-block"]

partial def readAll (h : IO.FS.Stream) (acc : List String) : IO (List String) := do
  let l ← h.getLine
  if l.isEmpty then return acc.reverse else readAll h (l.trimAscii.toString :: acc)

def splitBlocks (ls : List String) : List (List String) :=
  let rec go (ls : List String) (cur : List String) (acc : List (List String)) : List (List String) :=
    match ls with
    | [] => (if cur.isEmpty then acc else cur.reverse :: acc).reverse
    | l :: r => if l == "---" then go r [] (cur.reverse :: acc) else go r (l :: cur) acc
  go ls [] []

def main : IO Unit := do
  let ls ← readAll (← IO.getStdin) []
  for b in splitBlocks ls do
    for o in runBlock b do IO.println o
    IO.println "---"
