/- line-protocol driver for the thin-plate-spline model (C02, irregular domain).  All numbers are IEEE-754 bit patterns.
   block:  `cfg <s> <radius>` ; `pts x1 y1 x2 y2 …` ; `ca …` ; `cx …` ; `cy …` ; then any number of
           `q <x> <y> <n>`  → prints `A <a_d> L <l_d> E <enforce>`
           `row <k>`        → prints `R <entries…>`
   blocks end with `---` -/
import NdeVerif.Model.Tps
open NdeVerif.Tps

def fl (s : String) : Float := Float.ofBits (s.toNat!.toUInt64)
def sh (x : Float) : String := toString x.toBits.toNat

def pairs : List Float → List (Float × Float)
  | a :: b :: r => (a, b) :: pairs r
  | _ => []

structure St where
  s : Float := 0.01
  radius : Float := 0.5
  pts : List (Float × Float) := []
  ca : List Float := []
  cx : List Float := []
  cy : List Float := []

def step (st : St) (line : String) : St × Option String :=
  match line.splitOn " " with
  | ["cfg", s, r] => ({ st with s := fl s, radius := fl r }, none)
  | "pts" :: xs => ({ st with pts := pairs (xs.map fl) }, none)
  | "ca" :: xs => ({ st with ca := xs.map fl }, none)
  | "cx" :: xs => ({ st with cx := xs.map fl }, none)
  | "cy" :: xs => ({ st with cy := xs.map fl }, none)
  | ["q", x, y, n] =>
    let p := (fl x, fl y)
    let a := interp floatOps st.s st.pts st.ca p 0.0
    let l := lengthFactor floatOps st.s st.radius st.pts st.cx st.cy p 0.0
    let e := enforce floatOps st.s st.radius st.pts st.ca st.cx st.cy p (fl n) 0.0
    (st, some s!"A {sh a} L {sh l} E {sh e}")
  | ["row", k] =>
    match st.pts[k.toNat!]? with
    | some pk => (st, some ("R " ++ " ".intercalate ((row floatOps st.s st.pts pk).map sh)))
    | none => (st, some "R none")
  | _ => (st, some ("bad-op " ++ line))

partial def loop (h : IO.FS.Stream) (st : St) : IO Unit := do
  let l ← h.getLine
  if l.isEmpty then return ()
  let l := l.trimAscii.toString
  if l == "---" then
    IO.println "---"
    loop h {}
  else if l.isEmpty then loop h st
  else
    let (st', out) := step st l
    match out with
    | some o => IO.println o
    | none => pure ()
    loop h st'

def main : IO Unit := do loop (← IO.getStdin) {}
