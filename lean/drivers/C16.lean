/- line-protocol driver for the callbacks / fit-loop model (NdeVerif.Model.Callbacks).
   input: blocks separated by a line `---`; lines of a block (callbacks before fits):
     solver <nTrain> <nValid> <perNet> <nets csv>
     train <csv ints>            scripted loss values per train-epoch index (0 beyond the end)
     valid <csv ints>
     cb bare <action>
     cb cond <action|none> : <cond in prefix notation>
     table <depth> <start> <count> : <leaf> ; <leaf> ; …     (count callbacks `treeAt leaves depth i` each with a spy)
     fit <max_epochs>
   actions: spy | stop | setloss <id> <reset01> | setoptinst <id> <reset01> <params csv or -> | setoptcls <reset01>
            | eve <v0n> <v0d> <pn> <pd> <den> <n0> <nmax or _> <useTrain01>
   conds:   T F ofl ofg oll | pl <p> <off> | pg <p> <off> | il <lo|_> <hi|_> | ig <lo|_> <hi|_>
            | mon <check_every|_>     (BaseMonitor.to_callback)
            | rep <up|down|conv|div|below|above> <param> <useTrain01> <repetition>
            | and a b | or a b | xor a b | not a | andn k c1 … ck | orn k … | xorn k …
   output per block: `E …` per epoch that ran, `F …` per fit call, `H …` histories; `reject <i>` for a callback
   line that the real constructors reject (period 0) -/
import NdeVerif.Model.Callbacks
open NdeVerif.Callbacks

def csvInts (s : String) : List Int :=
  if s == "-" || s.isEmpty then [] else (s.splitOn ",").filterMap (fun t => t.trimAscii.toString.toInt?)

def csvNats (s : String) : List Nat := (csvInts s).map Int.toNat

def showCsv {α} [ToString α] (l : List α) : String :=
  if l.isEmpty then "-" else ",".intercalate (l.map toString)

def optInt (t : String) : Option (Option Int) :=
  if t == "_" then some none else (t.toInt?).map some

def kindOf : String → Option Kind
  | "up" => some .up | "down" => some .down | "conv" => some .converge | "div" => some .diverge
  | "below" => some .below | "above" => some .above | _ => none

mutual
partial def parseCond : List String → Option (Cond × List String)
  | "T" :: r => some (.tt, r)
  | "F" :: r => some (.ff, r)
  | "ofl" :: r => some (.onFirstLocal, r)
  | "ofg" :: r => some (.onFirstGlobal, r)
  | "oll" :: r => some (.onLastLocal, r)
  | "pl" :: p :: o :: r => do
    let p ← p.toNat?; let o ← o.toInt?
    if p == 0 then none else some (.periodLocal p o, r)
  | "pg" :: p :: o :: r => do
    let p ← p.toNat?; let o ← o.toInt?
    if p == 0 then none else some (.periodGlobal p o, r)
  | "il" :: lo :: hi :: r => do
    let lo ← optInt lo; let hi ← optInt hi
    some (.intervalLocal lo hi, r)
  | "ig" :: lo :: hi :: r => do
    let lo ← optInt lo; let hi ← optInt hi
    some (.intervalGlobal lo hi, r)
  | "mon" :: ce :: r =>
    if ce == "_" then some (monitorCond none, r) else (ce.toNat?).map (fun n => (monitorCond (some n), r))
  | "rep" :: k :: prm :: ut :: n :: r => do
    let k ← kindOf k; let prm ← prm.toInt?; let n ← n.toNat?
    some (.repeated k prm (ut == "1") n 0, r)
  | "not" :: r => do
    let (a, r) ← parseCond r
    some (.not a, r)
  | "and" :: r => do
    let (a, r) ← parseCond r; let (b, r) ← parseCond r
    some (.and a b, r)
  | "or" :: r => do
    let (a, r) ← parseCond r; let (b, r) ← parseCond r
    some (.or a b, r)
  | "xor" :: r => do
    let (a, r) ← parseCond r; let (b, r) ← parseCond r
    some (.xor a b, r)
  | "andn" :: k :: r => do parseN Cond.and (← k.toNat?) r
  | "orn" :: k :: r => do parseN Cond.or (← k.toNat?) r
  | "xorn" :: k :: r => do parseN Cond.xor (← k.toNat?) r
  | _ => none
/-- an n-ary list `[c1, …, ck]` (k ≥ 1) as the right-nested binary term -/
partial def parseN (op : Cond → Cond → Cond) : Nat → List String → Option (Cond × List String)
  | 0, _ => none
  | 1, r => parseCond r
  | k + 1, r => do
    let (a, r) ← parseCond r
    let (b, r) ← parseN op k r
    some (op a b, r)
end

def parseAction : List String → Option (Option Action)
  | ["none"] => some none
  | ["spy"] => some (some .spy)
  | ["stop"] => some (some .stop)
  | ["setloss", id, reset] => do some (some (.setLossFn (← id.toNat?) (reset == "1") false))
  | ["setoptinst", id, reset, ps] => do some (some (.setOptimizer (.inst (← id.toNat?) (csvNats ps)) (reset == "1") false))
  | ["setoptcls", reset] => some (some (.setOptimizer .cls (reset == "1") false))
  | ["eve", v0n, v0d, pn, pd, den, n0, nmax, ut] => do
    let nm ← if nmax == "_" then some none else (nmax.toNat?).map some
    some (some (.eve ⟨← v0n.toNat?, ← v0d.toNat?, ← pn.toNat?, ← pd.toNat?, ← den.toNat?, ← n0.toNat?, nm, ut == "1"⟩))
  | _ => none

def words (s : String) : List String := (s.splitOn " ").filter (fun t => !t.isEmpty)

structure Block where
  solver : Solver := {}
  train : Array Int := #[]
  valid : Array Int := #[]
  cbs : Array Callback := #[]
  fits : Array Nat := #[]
  table : Bool := false
  out : Array String := #[]

def splitAt (sep : String) (ws : List String) : List String × List String :=
  (ws.takeWhile (· != sep), (ws.dropWhile (· != sep)).drop 1)

partial def splitAll (sep : String) (ws : List String) : List (List String) :=
  if ws.isEmpty then [] else
    let (a, b) := splitAt sep ws
    a :: splitAll sep b

def addLine (b : Block) (l : String) : Block :=
  match words l with
  | ["solver", nt, nv, pn, nets] =>
    let s : Solver := { nTrain := nt.toNat!, nValid := nv.toNat!, perNet := pn.toNat!, nets := csvNats nets }
    { b with solver := { s with optParams := s.distinctParams } }
  | ["train", v] => { b with train := (csvInts v).toArray }
  | ["train"] => b
  | ["valid", v] => { b with valid := (csvInts v).toArray }
  | ["valid"] => b
  | "cb" :: "bare" :: act =>
    match parseAction act with
    | some (some a) => { b with cbs := b.cbs.push (.bare a) }
    | _ => { b with out := b.out.push s!"reject {b.cbs.size}", cbs := b.cbs.push (.cond .ff none) }
  | "cb" :: "cond" :: rest =>
    let (act, c) := splitAt ":" rest
    match parseAction act, parseCond c with
    | some a, some (c, []) => { b with cbs := b.cbs.push (.cond c a) }
    | _, _ => { b with out := b.out.push s!"reject {b.cbs.size}", cbs := b.cbs.push (.cond .ff none) }
  | "table" :: d :: st :: cnt :: ":" :: rest =>
    let leaves := ((splitAll ";" rest).filterMap (fun ws => (parseCond ws).map (·.1))).toArray
    let d := d.toNat!; let st := st.toNat!; let cnt := cnt.toNat!
    let new := (Array.range cnt).map (fun i => Callback.cond (treeAt leaves d (st + i)) (some .spy))
    { b with cbs := b.cbs ++ new, table := true }
  | ["fit", m] => { b with fits := b.fits.push m.toNat! }
  | _ => { b with out := b.out.push ("bad-line " ++ l) }

def b01 (x : Bool) : String := if x then "1" else "0"

def cbState : Callback → String
  | .bare (.setLossFn _ _ c) => "c" ++ b01 c
  | .bare (.setOptimizer _ _ c) => "c" ++ b01 c
  | .bare _ => "."
  | .cond c a =>
    let cs := c.counters
    (if cs.isEmpty then "." else ",".intercalate (cs.map toString)) ++
    (match a with
     | some (.setLossFn _ _ c) => "c" ++ b01 c
     | some (.setOptimizer _ _ c) => "c" ++ b01 c
     | _ => "")

def firedOf (prevLen : Nat) (s : Solver) : List Nat :=
  ((s.log.take (s.log.length - prevLen)).map (·.cb)).reverse

def epochLine (table : Bool) (ncb : Nat) (prevLen : Nat) (s : Solver) (cbs : List Callback) : String :=
  let fired := firedOf prevLen s
  let head := s!"E {s.fitIdx} {s.loc} {s.train.length} {s.maxLoc} "
  if table then
    let arr := fired.foldl (fun (a : Array Bool) j => a.setIfInBounds j true) (Array.replicate ncb false)
    head ++ "bits=" ++ String.ofList (arr.toList.map (fun x => if x then '1' else '0'))
  else
    head ++ s!"fired={showCsv fired} stop={b01 s.stop} nb={s.nTrain} loss={s.lossFn} lsets={s.lossSets} " ++
      s!"opt={s.opt} osets={s.optSets} params={showCsv s.optParams} st={";".intercalate (cbs.map cbState)}"

def runBlock (lines : List String) : List String := Id.run do
  let b := lines.foldl addLine {}
  let src : Src := ⟨fun k => b.train.getD k 0, fun k => b.valid.getD k 0⟩
  let mut s := b.solver
  let mut cbs := b.cbs.toList
  let mut out := b.out
  let ncb := cbs.length
  for m in b.fits do
    let r := fit src m s cbs
    let mut prev := s.log.length
    for (se, ce) in r.2.2 do
      out := out.push (epochLine b.table ncb prev se ce)
      prev := se.log.length
    s := r.1
    cbs := r.2.1
    out := out.push s!"F {s.fitIdx} loc={s.loc} glob={s.train.length} max={s.maxLoc} stop={b01 s.stop} ran={r.2.2.length}"
  out := out.push s!"H train={showCsv s.train.reverse} valid={showCsv s.valid.reverse}"
  return out.toList

partial def readAll (h : IO.FS.Stream) (acc : List String) : IO (List String) := do
  let l ← h.getLine
  if l.isEmpty then return acc.reverse else readAll h (l.trimAscii.toString :: acc)

def splitBlocks (ls : List String) : List (List String) :=
  let rec go (ls : List String) (cur : List String) (acc : List (List String)) : List (List String) :=
    match ls with
    | [] => (if cur.isEmpty then acc else cur.reverse :: acc).reverse
    | l :: r => if l == "---" then go r [] (cur.reverse :: acc) else go r (l :: cur) acc
  go ls [] []

def main : IO Unit := do
  let ls ← readAll (← IO.getStdin) []
  for b in splitBlocks ls do
    for o in runBlock b do IO.println o
    IO.println "---"
