#!/venv/bin/python
"""run the pinned test suite with one seeded patch applied (scratch worktree); record the result in seeded/<name>/meta.json"""
import json, os, subprocess, sys
import xml.etree.ElementTree as ET
name = sys.argv[1]
BASE = json.load(open('/root/.vp/BASELINE.json'))
wt = f'/tmp/seedtest-{name}'
sh = lambda c, **k: subprocess.run(c, shell=True, capture_output=True, text=True, **k)
sh(f'git -C /repo worktree remove --force {wt}')
sh(f'git -C /repo worktree add --detach {wt} HEAD')
try:
    r = sh(f'git apply /verif/seeded/{name}/patch.diff', cwd=wt)
    junit = f'/tmp/seedtest-{name}.xml'
    env = dict(os.environ, PYTHONPATH=wt, MPLBACKEND='Agg', OMP_NUM_THREADS='2')
    sh(f'/venv/bin/python -m pytest -ra -q -p no:cacheprovider --timeout=900 --continue-on-collection-errors --junitxml={junit}', cwd=wt, env=env, timeout=7200)
    passed = set()
    for tc in ET.parse(junit).getroot().iter('testcase'):
        if not any(ch.tag in ('failure', 'error', 'skipped') for ch in tc):
            passed.add(f"{tc.get('classname')}::{tc.get('name')}")
    missing = sorted(set(BASE['stable_pass']) - passed)
    os.remove(junit)
finally:
    sh(f'git -C /repo worktree remove --force {wt}')
# written next to meta.json (merged into it by tools/seed_merge.py) so that a concurrent seed_eval cannot lose the result
json.dump(dict(tests_ok=not missing, tests_missing_from_pass_set=missing, tests_passed=len(passed)),
          open(f'/verif/seeded/{name}/tests.json', 'w'), indent=1)
print(name, 'tests_ok', not missing, len(passed), missing[:3])
