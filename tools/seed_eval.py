#!/venv/bin/python
"""Evaluate one seeded change: tools/seed_eval.py <dir with patch.diff + demo.py> <property id> <label> [--tests] [--other C05,C15]

1. scratch worktree of /repo: demo on the clean tree (must pass), apply patch, demo (must fail);
   with --tests also the pinned suite (must equal the baseline's pass set);
2. apply the patch to /repo itself, run ./check <id> --tier quick (then thorough if quick is silent), undo;
3. write /verif/seeded/<id><label>/{patch.diff, demo.py, meta.json}.
"""
import json, os, re, shutil, subprocess, sys, time

ROOT = '/verif'
BASE = json.load(open('/root/.vp/BASELINE.json'))


def sh(cmd, cwd=None, env=None, timeout=7200):
    p = subprocess.run(cmd, shell=True, cwd=cwd, env=env, capture_output=True, text=True, timeout=timeout)
    return p.returncode, p.stdout + p.stderr


def main():
    src, pid, label = sys.argv[1:4]
    run_tests = '--tests' in sys.argv
    others = []
    if '--other' in sys.argv:
        others = sys.argv[sys.argv.index('--other') + 1].split(',')
    name = f'{pid}{label}'
    wt = f'/tmp/seedchk-{name}'
    sh(f'git -C /repo worktree remove --force {wt}')
    rc, out = sh(f'git -C /repo worktree add --detach {wt} HEAD')
    meta = dict(property=pid, label=label, source=src, at=time.strftime('%Y-%m-%d %H:%M:%S'))
    env = dict(os.environ, PYTHONPATH=wt, MPLBACKEND='Agg', PYTHONWARNINGS='ignore')
    demo = os.path.join(src, 'demo.py')
    patch = os.path.join(src, 'patch.diff')
    try:
        rc0, o0 = sh(f'/venv/bin/python {demo}', cwd=wt, env=env, timeout=1800)
        rca, oa = sh(f'git apply {patch}', cwd=wt)
        if rca != 0:
            meta['error'] = 'patch does not apply: ' + oa[-300:]
        rc1, o1 = sh(f'/venv/bin/python {demo}', cwd=wt, env=env, timeout=1800)
        meta['demo_clean_rc'], meta['demo_patched_rc'] = rc0, rc1
        meta['demo_clean_tail'], meta['demo_patched_tail'] = o0[-300:], o1[-300:]
        meta['demo_ok'] = (rc0 == 0 and rc1 != 0)
        if run_tests:
            junit = f'/tmp/seedchk-{name}.xml'
            rct, ot = sh(f'/venv/bin/python -m pytest -ra -q -p no:cacheprovider --timeout=900 --continue-on-collection-errors --junitxml={junit}',
                         cwd=wt, env=env, timeout=3600)
            import xml.etree.ElementTree as ET
            passed = set()
            for tc in ET.parse(junit).getroot().iter('testcase'):
                if not any(ch.tag in ('failure', 'error', 'skipped') for ch in tc):
                    passed.add(f"{tc.get('classname')}::{tc.get('name')}")
            want = set(BASE['stable_pass'])
            meta['tests_missing_from_pass_set'] = sorted(want - passed)
            meta['tests_ok'] = not (want - passed)
            os.remove(junit)
    finally:
        sh(f'git -C /repo worktree remove --force {wt}')
    # --- the checks against the patched /repo ---
    rc, out = sh('git -C /repo status --porcelain')
    if out.strip():
        print('/repo is dirty; refusing to apply', out)
        sys.exit(2)
    results = {}
    try:
        rca, oa = sh(f'git -C /repo apply {patch}')
        for p in [pid] + others:
            for tier in ('quick', 'thorough'):
                t = time.time()
                rcc, oc = sh(f'./check {p} --tier {tier}', cwd=ROOT, timeout=3600)
                lines = [l for l in oc.split('\n') if l.startswith('VIOLATION') or l.startswith('KNOWN-FINDING')]
                rep = None
                m = re.search(r'replay=(\S+)', '\n'.join(lines))
                if m and os.path.exists(os.path.join(ROOT, m.group(1))):
                    rep = json.load(open(os.path.join(ROOT, m.group(1))))
                    rep = json.dumps(rep, default=str)[:1500]
                results[f'{p}:{tier}'] = dict(rc=rcc, lines=lines[:4], seconds=round(time.time() - t), replay_excerpt=rep,
                                              tail=oc[-300:] if rcc not in (0, 1) else None)
                if rcc == 1:
                    break
    finally:
        sh('git -C /repo checkout -- .')
        sh('git checkout -- lean/NdeVerif/Gen evidence', cwd=ROOT)   # regenerated from the patched tree: restore
    meta['checks'] = results
    meta['caught_by'] = [k for k, v in results.items() if v['rc'] == 1]
    meta['caught_with_failing_input'] = [k for k, v in results.items() if v['rc'] == 1 and not any('no-failing-input-found' in l for l in v['lines'])]
    dst = os.path.join(ROOT, 'seeded', name)
    os.makedirs(dst, exist_ok=True)
    shutil.copy(patch, os.path.join(dst, 'patch.diff'))
    shutil.copy(demo, os.path.join(dst, 'demo.py'))
    if os.path.exists(os.path.join(src, 'notes.md')):
        shutil.copy(os.path.join(src, 'notes.md'), os.path.join(dst, 'notes.md'))
    old_meta = os.path.join(dst, 'meta.json')
    if os.path.exists(old_meta):        # keep the result of the (slow) pinned-suite confirmation
        try:
            om = json.load(open(old_meta))
            for k in ('tests_ok', 'tests_missing_from_pass_set', 'tests_passed'):
                if k in om and meta.get(k) is None:
                    meta[k] = om[k]
        except Exception:
            pass
    json.dump(meta, open(old_meta, 'w'), indent=1)
    print(name, 'demo_ok', meta.get('demo_ok'), 'tests_ok', meta.get('tests_ok'), 'caught_by', meta['caught_by'],
          'with_input', meta['caught_with_failing_input'])


if __name__ == '__main__':
    main()
