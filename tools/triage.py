#!/venv/bin/python
"""Parallel first-pass evaluation of seeded changes in private copies of /verif and /repo (nothing touches /repo or /verif).

tools/triage.py <n_slots> <tier> <pid>:<label>:<src dir> ...

Each slot k owns /tmp/ev<k>/verif (rsync of /verif incl. its .lake) and /tmp/ev<k>/repo (a detached worktree of /repo's HEAD).
A job applies <src>/patch.diff to the slot's repo, runs the slot's ./check <pid> --tier <tier>, records rc and the
VIOLATION / KNOWN-FINDING lines in /tmp/mut2/triage/<pid><label>.json, and reverts the slot.  The official record in
seeded/<id>/meta.json is still produced by tools/seed_eval.py against /repo itself.
"""
import json, os, re, subprocess, sys, time
from concurrent.futures import ThreadPoolExecutor
import queue

OUT = os.environ.get('TRIAGE_OUT', '/tmp/mut2/triage')


def sh(cmd, cwd=None, timeout=7200, env=None):
    p = subprocess.run(cmd, shell=True, cwd=cwd, capture_output=True, text=True, timeout=timeout, env=env)
    return p.returncode, p.stdout + p.stderr


def prepare(k):
    base = f'/tmp/ev{k}'
    os.makedirs(base, exist_ok=True)
    sh(f'rsync -a --delete --exclude replays --exclude seeded --exclude .git /verif/ {base}/verif/')
    if not os.path.exists(f'{base}/repo'):
        sh(f'git -C /repo worktree add --detach {base}/repo HEAD')
    sh('git checkout -- . && git clean -fdq neurodiffeq', cwd=f'{base}/repo')
    open(f'{base}/verif/check', 'w').write(f'''#!/bin/bash
cd "$(dirname "$0")"
export PYTHONPATH="{base}/verif:{base}/repo"
export NEURODIFFEQ_VERIF=1 PYTHONWARNINGS=ignore MPLBACKEND=Agg OMP_NUM_THREADS=4
exec /venv/bin/python -W ignore -m harness.main "$@"
''')
    os.chmod(f'{base}/verif/check', 0o755)


def job(slot, spec, tier):
    pid, label, src = spec.split(':')
    base = f'/tmp/ev{slot}'
    res = dict(property=pid, label=label, src=src, tier=tier)
    rc, out = sh(f'git apply {src}/patch.diff', cwd=f'{base}/repo')
    if rc != 0:
        res['error'] = 'patch does not apply: ' + out[-300:]
    else:
        env = dict(os.environ, PYTHONPATH=f'{base}/repo', MPLBACKEND='Agg', PYTHONWARNINGS='ignore', OMP_NUM_THREADS='2')
        rd, od = sh(f'/venv/bin/python {src}/demo.py', cwd=f'{base}/repo', env=env, timeout=1800)
        res['demo_patched_rc'] = rd
        t = time.time()
        rc, out = sh(f'./check {pid} --tier {tier}', cwd=f'{base}/verif', timeout=5400)
        res['rc'] = rc
        res['seconds'] = round(time.time() - t)
        res['lines'] = [l[:300] for l in out.split('\n') if l.startswith('VIOLATION') or l.startswith('KNOWN-FINDING')][:5]
        if rc not in (0, 1):
            res['tail'] = out[-600:]
        m = re.search(r'replay=(\S+)', '\n'.join(l for l in res['lines'] if l.startswith('VIOLATION')))
        if m and os.path.exists(f'{base}/verif/{m.group(1)}'):
            res['replay_excerpt'] = open(f'{base}/verif/{m.group(1)}').read()[:1200]
    sh('git checkout -- . && git clean -fdq neurodiffeq', cwd=f'{base}/repo')
    sh('git checkout -- lean/NdeVerif/Gen 2>/dev/null; true', cwd=f'{base}/verif')
    os.makedirs(OUT, exist_ok=True)
    json.dump(res, open(f'{OUT}/{pid}{label}.{tier}.json', 'w'), indent=1)
    caught = res.get('rc') == 1
    inp = caught and not any('no-failing-input-found' in l for l in res['lines'] if l.startswith('VIOLATION'))
    print(f"{pid}{label} {tier}: rc={res.get('rc')} caught={caught} failing_input={inp} demo_patched_rc={res.get('demo_patched_rc')} {res.get('seconds')}s {res.get('error', '')}", flush=True)


def main():
    n, tier = int(sys.argv[1]), sys.argv[2]
    specs = sys.argv[3:]
    for k in range(n):
        prepare(k)
    slots = queue.Queue()
    for k in range(n):
        slots.put(k)

    def run(spec):
        k = slots.get()
        try:
            job(k, spec, tier)
        except Exception as e:
            print(spec, 'crashed', e, flush=True)
        finally:
            slots.put(k)
    with ThreadPoolExecutor(n) as ex:
        list(ex.map(run, specs))


if __name__ == '__main__':
    main()
