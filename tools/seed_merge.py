#!/venv/bin/python
"""merge seeded/<id>/tests.json (pinned-suite result written by seed_tests.py) into seeded/<id>/meta.json"""
import glob, json, os
for t in sorted(glob.glob('/verif/seeded/*/tests.json')):
    m = os.path.join(os.path.dirname(t), 'meta.json')
    if os.path.exists(m):
        meta = json.load(open(m))
        meta.update(json.load(open(t)))
        json.dump(meta, open(m, 'w'), indent=1)
        os.remove(t)
        print(os.path.basename(os.path.dirname(t)), meta.get('tests_ok'), meta.get('tests_passed'))
