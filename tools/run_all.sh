#!/bin/bash
# tools/run_all.sh [quick|thorough] [ids...] : run the registered checks in sequence, print exit code and time per check
cd "$(dirname "$0")/.."
tier=${1:-quick}; shift
ids=${@:-C01 C02 C03 C04 C05 C06 C07 C08 C09 C10 C11 C12 C13 C14 C15 C16 C17 C18 C19 C20}
mkdir -p /tmp/verif-logs
for id in $ids; do
  s=$(date +%s)
  ./check $id --tier $tier > /tmp/verif-logs/$id.$tier.log 2>&1
  rc=$?
  e=$(date +%s)
  echo "$id rc=$rc t=$((e-s))s $(grep -c '^KNOWN-FINDING' /tmp/verif-logs/$id.$tier.log) known $(grep '^VIOLATION' /tmp/verif-logs/$id.$tier.log | head -3)"
done
