#!/venv/bin/python
"""writes seeded/README.md from the meta.json files"""
import glob, json, os
rows = []
for f in sorted(glob.glob('/verif/seeded/*/meta.json')):
    m = json.load(open(f))
    name = os.path.basename(os.path.dirname(f))
    notes = os.path.join(os.path.dirname(f), 'notes.md')
    title = ''
    if os.path.exists(notes):
        for l in open(notes):
            l = l.strip().lstrip('#').strip()
            if l:
                title = l[:150]
                break
    caught = m.get('caught_by', [])
    how = 'failing input' if m.get('caught_with_failing_input') else ('unproved (no-failing-input-found)' if caught else 'NOT CAUGHT')
    rnd = {'a': 1, 'b': 1, 'c': 1, 'd': 2, 'e': 2, 'f': 2, 'g': 3, 'h': 3, 'i': 3, 'j': 4, 'k': 4, 'l': 4, 'm': 5, 'n': 5, 'o': 5, 'p': 6, 'q': 6, 'r': 6, 's': 7, 't': 7, 'u': 7}.get(name[-1], '?')
    rows.append((name, rnd, m.get('property'), title, 'yes' if m.get('demo_ok') else 'NO', {True: 'yes', False: 'NO', None: 'pending'}[m.get('tests_ok')],
                 ', '.join(caught) or '-', how))
with open('/verif/seeded/README.md', 'w') as f:
    f.write('# Seeded changes\n\nEach directory holds `patch.diff` (apply with `git -C /repo apply`), `demo.py` (fails with the change, passes without), '
            '`notes.md` (author\'s description: what it needs in order to manifest) and `meta.json` (what was run: demo on clean/patched scratch '
            'worktree, pinned suite with the patch, `./check` quick/thorough against the patched /repo, replay excerpt).\n\n'
            'Produced by fresh sub-agents that saw only the property text and a scratch worktree of /repo; re-confirmed by `tools/seed_eval.py` and '
            '`tools/seed_tests.py`. None of these is committed to /repo.\n\n'
            'Rounds: 1 = labels a-c, 2 = d-f, 3 = g-i, 4 = j-l, 5 = m-o, 6 = p-r, 7 = s-u; DESIGN.md section 9 says what each round taught. "caught by" is the result of the registered '
            'checks as they are now.\n\n'
            '| change | round | property | what | demo fails only with change | pinned suite still passes | caught by | how |\n|---|---|---|---|---|---|---|---|\n')
    for r in rows:
        f.write('| ' + ' | '.join(str(x).replace('|', '/') for x in r) + ' |\n')
print(len(rows), 'rows;', sum(1 for r in rows if r[7] == 'NOT CAUGHT'), 'not caught;', sum(1 for r in rows if r[7] == 'failing input'), 'with failing input')
