#!/bin/bash
# tools/coverage_all.sh [tier] [ids...] : run the checks under coverage.py (source = /repo/neurodiffeq) and report,
# per file and per anchored function, which lines of the implementation the checks execute (a line no check executes
# cannot be tied to the model: its mutations are invisible).  Output: /tmp/verif-cov/report.txt
cd "$(dirname "$0")/.."
tier=${1:-quick}; shift
ids=${@:-C01 C02 C03 C04 C05 C06 C07 C08 C09 C10 C11 C12 C13 C14 C15 C16 C17 C18 C19 C20}
rm -rf /tmp/verif-cov; mkdir -p /tmp/verif-cov
export PYTHONPATH="/verif:$(pwd):/repo:$PYTHONPATH" NEURODIFFEQ_VERIF=1 PYTHONWARNINGS=ignore MPLBACKEND=Agg
for id in $ids; do
  /venv/bin/python -W ignore -m coverage run --source=/repo/neurodiffeq --data-file=/tmp/verif-cov/.cov.$id -m harness.main $id --tier $tier > /tmp/verif-cov/$id.log 2>&1
  echo "$id rc=$?"
done
cd /tmp/verif-cov && /venv/bin/python -m coverage combine --keep --data-file=/tmp/verif-cov/.coverage /tmp/verif-cov/.cov.* >/dev/null 2>&1
/venv/bin/python -m coverage report --data-file=/tmp/verif-cov/.coverage -m > /tmp/verif-cov/report.txt 2>&1
tail -25 /tmp/verif-cov/report.txt | cut -c1-150
